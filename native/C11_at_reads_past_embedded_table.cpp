// concurrent_vector::at(i) for an index that a growth call in flight has already claimed (i < my_size) while the vector
// still uses its embedded segment table (3 slots): the bound test was `number_of_segments(table) < seg_index`, so for
// seg_index == 3 it read table[3] - one slot past the embedded table (another member of the vector) - took that word for
// a segment pointer and handed out a reference computed from it instead of throwing out_of_range.
// Thread A: grow_by(20) on a fresh vector; its first allocation blocks.  Thread B: at(8) meanwhile.
// Exit 0 = at(8) threw std::out_of_range (or returned the element's final address); 1 = it returned something else.
#include <oneapi/tbb/concurrent_vector.h>
#include <atomic>
#include <chrono>
#include <cstdio>
#include <cstdlib>
#include <stdexcept>
#include <thread>
static std::atomic<int> allocs{0};
static std::atomic<bool> blocked{false}, release{false};
template <class T> struct BlockingAlloc {
    using value_type = T;
    BlockingAlloc() = default;
    template <class U> BlockingAlloc(const BlockingAlloc<U>&) {}
    T* allocate(std::size_t n) {
        if (allocs++ == 0) { blocked = true; while (!release) std::this_thread::yield(); }
        return static_cast<T*>(std::malloc(n * sizeof(T)));
    }
    void deallocate(T* p, std::size_t) { std::free(p); }
    template <class U> bool operator==(const BlockingAlloc<U>&) const { return true; }
    template <class U> bool operator!=(const BlockingAlloc<U>&) const { return false; }
};
int main() {
    tbb::concurrent_vector<long, BlockingAlloc<long>> v;
    std::thread a([&] { v.grow_by(20, 7L); });
    while (!blocked) std::this_thread::yield();
    const long* got = nullptr; bool threw = false;
    try { got = &v.at(8); } catch (std::out_of_range&) { threw = true; } catch (std::exception&) { threw = true; }
    release = true; a.join();
    if (threw) { std::printf("ok: at(8) threw while its segment was not allocated\n"); return 0; }
    if (got == &v[8]) { std::printf("ok: at(8) returned the final address\n"); return 0; }
    std::printf("at(8) returned %p during growth, the element lives at %p: the word behind the embedded segment table was used as a segment pointer\n", (const void*)got, (const void*)&v[8]);
    return 1;
}
