// function_node n1 (unlimited, priority) -> function_node n2 (serial, priority).  Bodies of n1 run on several threads
// and put into n2; n2's aggregator lets one thread create the n2 body task for a message of another thread, which then
// submits it through prioritize_task().  prioritize_task() allocates the priority_task_selector through the task's own
// small_object_allocator, which re-targets that allocator at the submitting thread's pool; the task is later returned
// to a pool it was not allocated from.  Debug builds: "Private counter may not be less than 0" at thread exit.
#include <oneapi/tbb/flow_graph.h>
#include <oneapi/tbb/global_control.h>
#include <cstdio>
#include <atomic>
using namespace tbb::flow;
int main() {
    std::atomic<long> ran{0};
    {
        tbb::task_scheduler_handle h{tbb::attach{}};
        {
        graph g;
        function_node<int, int> n1(g, unlimited, [&](int m) { ++ran; return m; }, node_priority_t(2));
        function_node<int, int> n2(g, serial, [&](int m) { ++ran; return m; }, node_priority_t(2));
        make_edge(n1, n2);
        for (int r = 0; r < 200; ++r) {
            for (int m = 0; m < 1000; ++m) n1.try_put(m);
            g.wait_for_all();
        }
        }
        tbb::finalize(h);      // worker threads exit here: their small object pools are destroyed
    }
    std::printf("ran=%ld\n", (long)ran);
    return ran == 400000 ? 0 : 1;
}
