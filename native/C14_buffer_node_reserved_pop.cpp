#include <oneapi/tbb/flow_graph.h>
#include <cstdio>
int main() {
    using namespace tbb::flow;
    graph g; buffer_node<int> b(g);
    b.try_put(7); g.wait_for_all();
    int v = 0, w = 0;
    bool r = b.try_reserve(v);
    bool got = b.try_get(w);        // the only item is reserved: must fail
    b.try_consume();
    int x = 0; bool more = b.try_get(x);
    g.wait_for_all();
    std::printf("reserve=%d v=%d  get-while-reserved=%d w=%d  get-after-consume=%d\n", r, v, got, w, more);
    return got ? 1 : 0;
}
