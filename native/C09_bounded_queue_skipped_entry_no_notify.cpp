// concurrent_bounded_queue, capacity 1: the entry of a push whose element constructor threw stays in the queue as an
// invalid entry.  A pop / try_pop that passes over it frees its slot but did not tell the pushers waiting for that slot
// before going on to the next ticket - whose pusher is exactly one of those sleepers: the popper spin-waits for the item
// of a pusher that sleeps for ever.  Sequence: push(a) ok; pop takes a; push(b) throws in the copy constructor
// (invalid entry, ticket 1); push(c) blocks (ticket 2, waits for head > 1); try_pop skips ticket 1, claims ticket 2 and
// waits for c.  Exit 0 = try_pop returned c; exit 1 = hang (watchdog).
#include <oneapi/tbb/concurrent_queue.h>
#include <atomic>
#include <chrono>
#include <cstdio>
#include <cstdlib>
#include <stdexcept>
#include <thread>
static std::atomic<bool> throw_next{false};
struct Item {
    int v;
    explicit Item(int x = 0) : v(x) {}
    Item(const Item& o) : v(o.v) { if (throw_next.exchange(false)) throw std::runtime_error("copy"); }
    Item& operator=(const Item&) = default;
};
int main() {
    for (int it = 0; it < 200; ++it) {
        tbb::concurrent_bounded_queue<Item> q;
        q.set_capacity(1);
        std::atomic<bool> done{false};
        std::thread dog([&] { for (int i = 0; i < 3000 && !done; ++i) std::this_thread::sleep_for(std::chrono::milliseconds(1));
                              if (!done) { std::printf("iteration %d: try_pop() waits for the item of a push() that was never woken although its slot is free\n", it); std::fflush(stdout); std::_Exit(1); } });
        q.push(Item(1));
        Item x; q.pop(x);                                   // head = 1
        throw_next = true;
        try { q.push(Item(2)); } catch (std::runtime_error&) {}   // ticket 1 becomes an invalid entry
        std::thread pusher([&] { q.push(Item(3)); });       // ticket 2: target 1, head 1 -> sleeps
        while (q.size() < 1) std::this_thread::yield();     // the ticket is taken (size counts the blocked push, not the invalid entry)
        std::this_thread::sleep_for(std::chrono::milliseconds(2));   // let the pusher fall asleep
        Item y; bool ok = q.try_pop(y);                     // skips ticket 1, claims ticket 2
        pusher.join();
        if (!ok) { ok = q.try_pop(y); }
        done = true; dog.join();
        if (!ok || y.v != 3) { std::printf("iteration %d: try_pop returned %d value %d\n", it, (int)ok, y.v); return 1; }
    }
    std::printf("ok\n");
    return 0;
}
