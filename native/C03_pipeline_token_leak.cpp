// Tokens parked in the input buffer of a serial filter when the pipeline is cancelled (here: by an exception in that
// filter) were never destroyed: ~input_buffer only freed its array.  Counts constructed vs destroyed token objects.
#include <oneapi/tbb/parallel_pipeline.h>
#include <oneapi/tbb/global_control.h>
#include <atomic>
#include <cstdio>
#include <stdexcept>
static std::atomic<long> live{0};
struct Tok { int v; char pad[60]; explicit Tok(int x = 0) : v(x) { ++live; } Tok(const Tok& o) : v(o.v) { ++live; } ~Tok() { --live; } };
int main() {
    long leaked_runs = 0;
    for (int it = 0; it < 300; ++it) {
        int produced = 0;
        try {
            tbb::parallel_pipeline(8,
                tbb::make_filter<void, Tok>(tbb::filter_mode::serial_in_order, [&](tbb::flow_control& fc) -> Tok { if (produced >= 200) { fc.stop(); return Tok(0); } return Tok(++produced); }) &
                tbb::make_filter<Tok, Tok>(tbb::filter_mode::parallel, [](Tok t) { for (volatile int i = 0; i < (t.v % 7) * 300; ++i) {} return t; }) &
                tbb::make_filter<Tok, void>(tbb::filter_mode::serial_in_order, [](const Tok& t) { if (t.v == 40) throw std::runtime_error("stop"); }));
        } catch (std::runtime_error&) {}
        if (live != 0) { ++leaked_runs; live = 0; }
    }
    std::printf("%ld of 300 cancelled pipeline runs left token objects undestroyed\n", leaked_runs);
    return leaked_runs ? 1 : 0;
}
