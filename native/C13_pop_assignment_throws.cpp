// concurrent_priority_queue::try_pop(value): the popped element is assigned to the caller's object inside the batch
// handler (whichever thread handles the batch).  A throwing assignment escaped from the handler: the exception surfaced
// in the handler thread's own operation, the aggregator stayed busy, and every later operation on the queue hung.
// Here (single thread): the assignment into try_pop's destination throws once; afterwards the queue must still work and
// still hold the element.  Exit 0 = exception reached try_pop's caller and the queue is intact; 1 = hang or lost element.
#include <oneapi/tbb/concurrent_priority_queue.h>
#include <atomic>
#include <chrono>
#include <cstdio>
#include <cstdlib>
#include <stdexcept>
#include <thread>
static bool throw_next = false;
struct Item {
    int v = 0; bool is_out = false;
    Item() = default; explicit Item(int x) : v(x) {}
    Item(const Item&) = default; Item(Item&&) = default; Item& operator=(const Item&) = default;
    Item& operator=(Item&& o) { if (is_out && throw_next) { throw_next = false; throw std::runtime_error("assign"); } v = o.v; return *this; }
    bool operator<(const Item& o) const { return v < o.v; }
};
int main() {
    std::atomic<bool> done{false};
    std::thread dog([&] { for (int i = 0; i < 3000 && !done; ++i) std::this_thread::sleep_for(std::chrono::milliseconds(1));
                          if (!done) { std::printf("the queue hangs after an exception from the assignment in try_pop\n"); std::fflush(stdout); std::_Exit(1); } });
    tbb::concurrent_priority_queue<Item> q;
    q.push(Item(5)); q.push(Item(9));
    Item out; out.is_out = true; bool caught = false;
    throw_next = true;
    try { q.try_pop(out); } catch (std::runtime_error&) { caught = true; }
    q.push(Item(7));                              // the queue must still accept operations
    int got[3] = {0, 0, 0}, n = 0; Item x;
    while (n < 3 && q.try_pop(x)) got[n++] = x.v;
    done = true; dog.join();
    bool ok = caught && n == 3 && got[0] == 9 && got[1] == 7 && got[2] == 5;
    std::printf("%s: exception reached the caller=%d, popped afterwards: %d %d %d\n", ok ? "ok" : "FAILED", (int)caught, got[0], got[1], got[2]);
    return ok ? 0 : 1;
}
