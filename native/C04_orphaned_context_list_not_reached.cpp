// A context registered in the context list of a thread that has exited is not reached by a later cancellation of its
// ancestor: propagation walks the lists of the live threads only, an orphaned list is never visited again (the context
// is marked only if some descendant of it sits in a live list, whose ancestor chain is then painted).
// Thread T binds M1 beneath src (nested one-chunk loops) and exits; main cancels src; M1 must be cancelled, and a
// context bound beneath M1 afterwards must be cancelled as well.  Exit 0 = both are, 1 = not.
#include <oneapi/tbb/parallel_for.h>
#include <oneapi/tbb/task_group.h>
#include <cstdio>
#include <memory>
#include <thread>
int main() {
    int bad = 0;
    for (int round = 0; round < 50; ++round) {
        std::unique_ptr<tbb::task_group_context> src(new tbb::task_group_context), m1(new tbb::task_group_context);
        std::thread t([&] { tbb::parallel_for(0, 1, [&](int) { tbb::parallel_for(0, 1, [](int) {}, *m1); }, *src); });
        t.join();
        bool won = src->cancel_group_execution();
        bool m1c = m1->is_group_execution_cancelled();
        bool kc = false, k_ran = false;
        tbb::parallel_for(0, 1, [&](int) {                      // runs only if M1's group is not (known to be) cancelled
            tbb::task_group_context k;
            tbb::parallel_for(0, 1, [&](int) { k_ran = true; }, k);
            kc = k.is_group_execution_cancelled();
        }, *m1);
        if (!won || !m1c || k_ran) {
            if (++bad <= 3) std::printf("round %d: cancel(src) returned %d; M1 (bound beneath src by a thread that has exited) cancelled=%d; a body of a context bound beneath M1 afterwards ran=%d (K cancelled=%d)\n", round, (int)won, (int)m1c, (int)k_ran, (int)kc);
        }
    }
    if (!bad) std::printf("ok\n");
    return bad ? 1 : 0;
}
