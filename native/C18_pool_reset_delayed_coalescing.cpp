// rml::pool_reset() with a coalescing request still queued: Backend::reset() re-initialised the bins and made every
// region one free block, but left the queue of blocks whose coalescing had been delayed (a neighbour was locked by
// another thread when they were freed).  The next backend operation processed the queue and put those blocks into the
// bins a second time: the same memory was handed out twice (in the simulated run: a new thread's TLSData on top of a
// live user block).  Threads exit at the same time (their cached slabs are returned concurrently, which is what delays
// coalescing), then pool_reset, then patterned blocks from two threads.  Exit 0 = all blocks intact.
#include <oneapi/tbb/scalable_allocator.h>
#include "oneapi/tbb/memory_pool.h"
#include <atomic>
#include <cstdio>
#include <cstdlib>
#include <cstring>
#include <thread>
#include <vector>
#define TBB_PREVIEW_MEMORY_POOL 1
static void* raw_alloc(intptr_t, size_t& bytes) { return std::malloc(bytes); }
static int raw_free(intptr_t, void* p, size_t) { std::free(p); return 0; }
int main() {
    rml::MemPoolPolicy pol(raw_alloc, raw_free, 0, false, false);
    rml::MemoryPool* pool = nullptr;
    if (rml::pool_create_v1(0, &pol, &pool) != rml::POOL_OK) return 2;
    long bad = 0;
    for (int it = 0; it < 400 && !bad; ++it) {
        std::atomic<int> go{0};
        std::vector<std::thread> th;
        for (int t = 0; t < 6; ++t) th.emplace_back([&, t] {
            std::vector<void*> v;
            for (int i = 0; i < 40; ++i) v.push_back(rml::pool_malloc(pool, 8000 - 64 * (size_t)t));
            for (void* p : v) rml::pool_free(pool, p);
            ++go; while (go < 6) {}                    // leave together: the cached slabs go back concurrently
        });
        for (auto& x : th) x.join();
        rml::pool_reset(pool);
        std::vector<std::pair<unsigned char*, size_t>> blocks;
        auto fill = [&](int who) {
            for (int i = 0; i < 300; ++i) { size_t sz = 16 + (size_t)(i % 7) * 40; auto* p = (unsigned char*)rml::pool_malloc(pool, sz); if (!p) continue; std::memset(p, 0x40 + who, sz); blocks.push_back({p, sz}); }
        };
        fill(1);
        std::thread other([&] { void* q = rml::pool_malloc(pool, 24); std::memset(q, 0x77, 24); }); other.join();
        for (auto& b : blocks) for (size_t i = 0; i < b.second; ++i) if (b.first[i] != 0x41) { ++bad; break; }
        if (bad) std::printf("iteration %d: %ld live block(s) of the pool were overwritten after pool_reset\n", it, bad);
    }
    rml::pool_destroy(pool);
    if (!bad) std::printf("ok\n");
    return bad ? 1 : 0;
}
