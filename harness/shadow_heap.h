// Shadow model of the allocator's user-visible state: live blocks, their requested sizes and a fill
// pattern derived from a per-block id (the allocator must never write into a live block).
#pragma once
#include "common.h"
#include <map>
namespace rml { class MemoryPool; size_t pool_msize(MemoryPool*, void*); }

namespace hx {

inline size_t draw_alloc_size() {
    static const size_t sizes[] = {0, 1, 7, 8, 9, 15, 16, 17, 24, 31, 32, 33, 48, 56, 63, 64, 65, 80, 96, 112, 127, 128, 129, 160, 192, 224, 255, 256, 257, 320, 384, 448, 512, 640, 768,
                                   896, 1023, 1024, 1025, 1792, 1793, 2688, 2689, 4032, 4033, 5376, 8127, 8128, 8129, 10000, 16000, 16255, 16256, 16384, 20000, 32768, 65536, 100000,
                                   262144, 1048576, 1048577, 2097152, 4194304, 8388608, 8388609};
    size_t n = sizeof sizes / sizeof sizes[0];
    // small sizes are much more frequent
    size_t i = sim::draw(4, "sizeclass") == 0 ? sim::draw(n, "size") : sim::draw(48, "size");
    return sizes[i];
}

struct ShadowHeap {
    struct Blk { size_t size; uint64_t id; };
    std::map<uintptr_t, Blk> blocks;   // by start address
    uint64_t next_id = 1;
    struct Saved { size_t size; uint64_t id; bool valid; };
    const char* ctx = "";

    static unsigned char pat(uint64_t id, size_t i) { return (unsigned char)((id * 131 + i * 7 + 0x5a) & 0xff); }
    // sampled positions of a block of n bytes: the first 4096 bytes, every 4099th byte, and the last 1024 bytes;
    // for_prefix visits only the positions that are sampled for EVERY block size >= n (used for realloc prefixes)
    template <class F> static void for_prefix(size_t n, F f) {
        size_t head = n < 4096 ? n : 4096;
        for (size_t i = 0; i < head; ++i) f(i);
        for (size_t i = 4099; i < n; i += 4099) f(i);
    }
    template <class F> static void for_sample(size_t n, F f) {
        for_prefix(n, f);
        if (n > 4096 + 1024) for (size_t i = n - 1024; i < n; ++i) if (i % 4099 != 0) f(i);
    }
    void fill(void* p, size_t n, uint64_t id) { unsigned char* c = (unsigned char*)p; for_sample(n, [&](size_t i) { c[i] = pat(id, i); }); }
    void verify(const void* p, size_t n, uint64_t id, const char* when) const {
        const unsigned char* c = (const unsigned char*)p;
        for_sample(n, [&](size_t i) {
            if (c[i] != pat(id, i)) sim::fail("oracle:block-contents", "%s%s: byte %zu of live block %p (size %zu) was overwritten (the allocator wrote into a live block or handed it out twice)", ctx, when, i, p, n);
        });
    }
    size_t live() const { return blocks.size(); }
    size_t size_of(const void* p) const { auto it = blocks.find((uintptr_t)p); return it == blocks.end() ? 0 : it->second.size; }

    void on_alloc(void* p, size_t size, size_t align, bool zeroed, const char* what, rml::MemoryPool* pool = nullptr) {
        if (!p) { sim::probe("alloc-returned-null"); return; }
        uintptr_t a = (uintptr_t)p;
        size_t eff = size ? size : 1;
        // no overlap with any live block
        auto it = blocks.upper_bound(a);
        if (it != blocks.end()) SIM_CHECK(a + eff <= it->first, "oracle:block-overlap", "%s%s(%zu) returned %p which overlaps live block %p (size %zu)", ctx, what, size, p, (void*)it->first, it->second.size);
        if (it != blocks.begin()) { --it; SIM_CHECK(it->first + (it->second.size ? it->second.size : 1) <= a, "oracle:block-overlap", "%s%s(%zu) returned %p inside live block %p (size %zu)", ctx, what, size, p, (void*)it->first, it->second.size); }
        size_t need = align ? align : (size <= 8 ? 8 : 16);
        SIM_CHECK(a % need == 0, "oracle:alignment", "%s%s(%zu) returned %p, not aligned to %zu", ctx, what, size, p, need);
        size_t ms = pool ? rml::pool_msize(pool, p) : scalable_msize(p);
        SIM_CHECK(ms >= size, "oracle:msize", "%sscalable_msize(%p) == %zu < requested %zu (%s)", ctx, p, ms, size, what);
        if (zeroed) { const unsigned char* c = (const unsigned char*)p; for_sample(size, [&](size_t i) { if (c[i]) sim::fail("oracle:calloc-zero", "%scalloc block %p has a non-zero byte at %zu", ctx, p, i); }); }
        uint64_t id = next_id++;
        blocks[a] = {size, id};
        fill(p, size, id);
    }
    void before_free(void* p, const char* what) {
        auto it = blocks.find((uintptr_t)p);
        SIM_CHECK(it != blocks.end(), "tool:harness", "free of an unknown block");
        verify(p, it->second.size, it->second.id, what);
        blocks.erase(it);     // from the invocation of free on, the block may be handed out again
    }
    Saved before_realloc(void* p) {
        auto it = blocks.find((uintptr_t)p);
        SIM_CHECK(it != blocks.end(), "tool:harness", "realloc of an unknown block");
        verify(p, it->second.size, it->second.id, "before realloc");
        Saved s{it->second.size, it->second.id, true};
        blocks.erase(it);
        return s;
    }
    void after_realloc(const Saved& s, void* old, void* q, size_t newsz, size_t align, const char* what, rml::MemoryPool* pool = nullptr) {
        if (!q) { // failed: the old block is untouched and still live
            blocks[(uintptr_t)old] = {s.size, s.id};
            verify(old, s.size, s.id, "after failed realloc");
            sim::probe("alloc-returned-null");
            return;
        }
        size_t keep = s.size < newsz ? s.size : newsz;
        const unsigned char* c = (const unsigned char*)q;
        for_prefix(keep, [&](size_t i) { if (c[i] != pat(s.id, i)) sim::fail("oracle:realloc-contents", "%s%s: byte %zu of the first min(old=%zu,new=%zu) bytes not preserved", ctx, what, i, s.size, newsz); });
        // register as a fresh block (overlap / alignment / msize checks apply)
        on_alloc(q, newsz, align, false, what, pool);
    }
    void check_msize(void* p, size_t ms) {
        auto it = blocks.find((uintptr_t)p);
        if (it != blocks.end()) SIM_CHECK(ms >= it->second.size, "oracle:msize", "%sscalable_msize(%p) == %zu < requested %zu", ctx, p, ms, it->second.size);
    }
    void check_all(const char* when) const { for (auto& kv : blocks) verify((const void*)kv.first, kv.second.size, kv.second.id, when); }
};

}  // namespace hx
