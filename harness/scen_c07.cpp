// C07 — parallel_pipeline: each item through every filter exactly once, serial_in_order filters share one
// order, serial filters never overlap, live tokens bounded, call returns after the last item left.
#include "rt_common.h"
#include "oneapi/tbb/task_group.h"
#include "oneapi/tbb/parallel_for.h"
#include "oneapi/tbb/parallel_pipeline.h"

namespace {
struct StageLog { std::vector<int> order; int running = 0; };
}

SIM_SCENARIO(scen_c07, "c07", "C07", 8000000, 40000) {
    hx::Desc d;
    hx::draw_runtime_config(d, 16);     // a token can only be overtaken by as many others as there are threads
    static const int concs[] = {0, 1, 2, 3, 4, 8, 12};
    int conc = sim::draw_of(concs, "arena_conc");
    int nfilters = (int)sim::draw_range(2, 5, "nfilters");
    static const int toks[] = {1, 2, 3, 4, 5, 6, 8, 9, 12, 16};
    int ntokens = sim::draw_of(toks, "tokens");
    static const int counts[] = {0, 1, 2, 3, 5, 9, 17, 40, 64};
    int nitems = sim::draw_of(counts, "items");
    std::vector<tbb::filter_mode> modes(nfilters);
    std::string ms;
    for (int i = 0; i < nfilters; ++i) {
        int m = (int)sim::draw(3, "mode");
        modes[i] = m == 0 ? tbb::filter_mode::parallel : m == 1 ? tbb::filter_mode::serial_in_order : tbb::filter_mode::serial_out_of_order;
        ms += m == 0 ? "P" : m == 1 ? "I" : "O";
    }
    // theme "deep reordering" (1 run in 4): ordered token assigned by a serial_in_order input filter, parallel middle
    // stage(s) on many threads with most items slow and a few fast, a serial_in_order stage downstream, many live
    // tokens: far-ahead tokens arrive at the ordered buffer first (buffer growth by more than one doubling)
    bool deep = sim::draw(4, "theme_deep") == 0;
    if (deep) {
        modes[0] = tbb::filter_mode::serial_in_order;
        for (int i = 1; i < nfilters - 1; ++i) modes[i] = tbb::filter_mode::parallel;
        modes[nfilters - 1] = tbb::filter_mode::serial_in_order;
        if (nfilters == 2) { nfilters = 3; modes.resize(3); modes[1] = tbb::filter_mode::parallel; modes[2] = tbb::filter_mode::serial_in_order; }
        static const int dtoks[] = {9, 12, 16};
        ntokens = sim::draw_of(dtoks, "deep_tokens");
        nitems = 64;
        sim::g_cfg.P = 16;
        ms = "(deep)";
    }
    uint64_t delay_seed = sim::draw(1u << 20, "delay_seed");
    static const int delays[] = {0, 3, 12, 40, 150};
    int maxdelay = sim::draw_of(delays, "maxdelay");
    // delay shapes: 0 pseudo-random per (item,stage); 1 "stragglers": every 8th item is very slow in the middle
    // stages, the others are fast (a late item overtakes many earlier ones); 2 the last stage is slow for item 1
    int delay_shape = (int)sim::draw(4, "delay_shape");
    if (deep) { delay_shape = 3; if (maxdelay < 40) maxdelay = 40; conc = sim::draw_bool("deep_arena") ? 12 : 0; }   // 3: most items slow in the middle stages, a few fast ones overtake them
    // "all token limits >= 1": now and then a limit beyond 2^31 / 2^32 (the usual 'unlimited' idioms); the number of items in
    // flight is then bounded by the item count only
    static const size_t huge_limits[] = {(size_t)1 << 31, ((size_t)1 << 32) - 1, (size_t)1 << 40, (size_t)1 << 63, ~(size_t)0};
    size_t token_limit = (!deep && sim::draw(8, "huge_limit") == 0) ? huge_limits[sim::draw(5, "which_huge")] : (size_t)ntokens;
    if (token_limit != (size_t)ntokens && nitems > 17) nitems = 17;
    // nested waits inside filter bodies (the input filter included): the thread that waits there runs other tasks meanwhile,
    // among them stage tasks of this very pipeline (another invocation of the input filter that reaches the end and stops)
    int nested = deep ? 0 : (int)sim::draw(4, "nested_wait");      // 0,1: none; 2: parallel_for; 3: task_group
    if (nested < 2) nested = 0;
    d.add(hx::fmt("pipeline filters=%s tokens=%zu items=%d maxdelay=%d delay_shape=%d arena=%d nested-wait=%s", ms.c_str(), token_limit, nitems, maxdelay, delay_shape, conc,
                  nested == 0 ? "none" : nested == 2 ? "parallel_for in a third of the bodies" : "task_group in a third of the bodies"));
    d.publish();

    std::vector<StageLog> st(nfilters);
    std::vector<std::vector<uint8_t>> passed(nfilters, std::vector<uint8_t>(nitems + 1, 0));
    std::vector<int> stage_of(nitems + 1, -1);   // last stage each item has completed
    int emitted = 0, retired = 0, live_max = 0;
    bool input_done = false, call_returned = false;
    auto delay = [&](int item, int stage) {
        uint64_t h = (delay_seed + (uint64_t)item * 0x9e3779b97f4a7c15ull + (uint64_t)stage * 0xbf58476d1ce4e5b9ull);
        h ^= h >> 29; h *= 0x94d049bb133111ebull; h ^= h >> 32;
        int n = maxdelay ? (int)(h % (uint64_t)(maxdelay + 1)) : 0;
        if (delay_shape == 1) n = (stage > 0 && stage < nfilters - 1) ? (item % 8 == 1 ? maxdelay * 3 : (int)(h % 3)) : n / 4;
        else if (delay_shape == 2 && stage == nfilters - 1 && item == 1) n = maxdelay * 6;
        else if (delay_shape == 3) n = (stage > 0 && stage < nfilters - 1) ? (item % 10 >= 9 ? 0 : maxdelay + (int)(h % 7)) : (stage == nfilters - 1 && item == 1 ? maxdelay * 4 : 0);
        for (int k = 0; k < n; ++k) sim::upoint();
        if (nested && ((h >> 40) % 3 == 0 || item == nitems)) {
            int inner = 1 + (int)((h >> 44) % 4);
            if (nested == 2) tbb::parallel_for(0, 3, [&](int) { for (int k = 0; k < inner; ++k) sim::upoint(); }, tbb::simple_partitioner());
            else { tbb::task_group tg; tg.run([&] { for (int k = 0; k < inner; ++k) sim::upoint(); }); for (int k = 0; k < inner; ++k) sim::upoint(); tg.wait(); }
            sim::probe("nested-wait-inside-filter");
        }
    };
    auto enter = [&](int stage, int item) {
        SIM_CHECK(!call_returned, "oracle:late-filter", "filter %d invoked for item %d after parallel_pipeline returned", stage, item);
        StageLog& s = st[stage];
        if (modes[stage] != tbb::filter_mode::parallel)
            SIM_CHECK(s.running == 0, "oracle:serial-overlap", "serial filter %d entered for item %d while another invocation of it is running", stage, item);
        s.running++;
        SIM_CHECK(!passed[stage][item], "oracle:item-twice", "item %d passed filter %d twice", item, stage);
        SIM_CHECK(stage_of[item] == stage - 1, "oracle:stage-order", "item %d entered filter %d but its last completed filter is %d", item, stage, stage_of[item]);
        passed[stage][item] = 1;
        s.order.push_back(item);
    };
    auto leave = [&](int stage, int item) { st[stage].running--; stage_of[item] = stage; };

    auto run = [&] {
        // first filter: produces items 1..nitems
        auto first = tbb::make_filter<void, int>(modes[0], [&](tbb::flow_control& fc) -> int {
            SIM_CHECK(!call_returned, "oracle:late-filter", "input filter invoked after parallel_pipeline returned");
            if (modes[0] != tbb::filter_mode::parallel) SIM_CHECK(st[0].running == 0, "oracle:serial-overlap", "serial input filter entered concurrently");
            st[0].running++;
            if (emitted >= nitems) { input_done = true; fc.stop(); st[0].running--; return 0; }
            int item = ++emitted;
            int live = emitted - retired;
            if (live > live_max) live_max = live;
            SIM_CHECK((size_t)live <= token_limit, "oracle:token-limit", "%d items in flight, max_number_of_live_tokens is %zu", live, token_limit);
            SIM_CHECK(!passed[0][item], "oracle:item-twice", "item %d produced twice", item);
            passed[0][item] = 1; st[0].order.push_back(item);
            delay(item, 0);
            stage_of[item] = 0;
            st[0].running--;
            return item;
        });
        tbb::filter<void, int> chain = first;
        for (int i = 1; i < nfilters - 1; ++i) {
            chain = chain & tbb::make_filter<int, int>(modes[i], [&, i](int item) -> int { enter(i, item); delay(item, i); leave(i, item); return item; });
        }
        int lastf = nfilters - 1;
        tbb::filter<void, void> whole = chain & tbb::make_filter<int, void>(modes[lastf], [&, lastf](int item) {
            enter(lastf, item); delay(item, lastf); leave(lastf, item); ++retired;
        });
        tbb::parallel_pipeline(token_limit, whole);
        call_returned = true;
    };
    if (conc) { tbb::task_arena a(conc); a.execute(run); } else run();

    SIM_CHECK(input_done, "oracle:early-return", "parallel_pipeline returned before the input filter signalled end of input");
    SIM_CHECK(emitted == nitems && retired == nitems, "oracle:early-return", "returned with %d items emitted and %d retired of %d", emitted, retired, nitems);
    for (int s = 0; s < nfilters; ++s)
        for (int it = 1; it <= nitems; ++it) SIM_CHECK(passed[s][it] == 1, "oracle:item-lost", "item %d never passed filter %d", it, s);
    // all serial_in_order filters see the order of the first serial_in_order filter
    int ref = -1;
    for (int s = 0; s < nfilters; ++s) if (modes[s] == tbb::filter_mode::serial_in_order) {
        if (ref < 0) { ref = s; continue; }
        SIM_CHECK(st[s].order == st[ref].order, "oracle:in-order", "serial_in_order filter %d processed items in a different order than serial_in_order filter %d", s, ref);
    }
    if (live_max >= 2) sim::probe("tokens-in-flight>=2");
}
