// C03 — an exception thrown by user code inside a parallel construct surfaces exactly once at the wait,
// after every body of the group has stopped; nothing escapes on workers; the group is reusable;
// objects created for the cancelled work are destroyed exactly once.
#include "rt_common.h"
#include "oneapi/tbb/parallel_for.h"
#include "oneapi/tbb/parallel_reduce.h"
#include "oneapi/tbb/parallel_for_each.h"
#include "oneapi/tbb/parallel_invoke.h"
#include "oneapi/tbb/parallel_pipeline.h"
#include "oneapi/tbb/flow_graph.h"

namespace {

int g_live_exceptions = 0;   // user exception objects alive (thrown originals and the copies the library keeps)
struct tagged : std::exception {
    int tag;
    explicit tagged(int t) : tag(t) { ++g_live_exceptions; }
    tagged(const tagged& o) : std::exception(o), tag(o.tag) { ++g_live_exceptions; }
    ~tagged() override { --g_live_exceptions; }
    const char* what() const noexcept override { return "tagged test exception"; }
};

enum Site { S_BODY, S_RANGE_COPY, S_RANGE_SPLIT, S_BODY_SPLIT, S_JOIN, S_NSITES };
const char* const kSite[] = {"body", "range-copy", "range-split", "body-split", "join"};

struct Round {
    int live = 0, started = 0, late = 0;
    bool exited = false;
    std::vector<int> thrown;          // tags actually thrown in this round
    int calls[S_NSITES] = {0};
    int throw_at[S_NSITES] = {0};     // k-th call of that site throws (0 = never)
    int throw_n[S_NSITES] = {0};      // how many consecutive calls throw
    int next_tag = 1;
    long live_ranges = 0, live_bodies = 0, live_functors = 0, live_tokens = 0;
    int points = 0;
};
Round* R = nullptr;
std::string g_ctx;

void maybe_throw(Site s) {
    int k = ++R->calls[s];
    if (R->throw_at[s] && k >= R->throw_at[s] && k < R->throw_at[s] + R->throw_n[s]) {
        int tag = R->next_tag++;
        R->thrown.push_back(tag);
        sim::fault_fired(kSite[s]);
        throw tagged(tag);
    }
}
struct BodyScope {
    BodyScope() {
        if (R->exited) { R->late++; sim::fail("oracle:body-after-exit", "a body of the group started after the waiting call had already returned or thrown"); }
        R->started++; R->live++;
    }
    ~BodyScope() { R->live--; }
};
void body_work() {
    BodyScope sc;
    for (int i = 0; i < R->points; ++i) sim::upoint();
    maybe_throw(S_BODY);
    for (int i = 0; i < R->points / 2; ++i) sim::upoint();
}

struct XRange {
    tbb::blocked_range<int> r;
    XRange(int b, int e, int g) : r(b, e, (size_t)g) { R->live_ranges++; }
    XRange(const XRange& o) : r(o.r) { maybe_throw(S_RANGE_COPY); R->live_ranges++; }
    XRange(XRange& o, tbb::split s) : r(o.r, s) { R->live_ranges++; try { maybe_throw(S_RANGE_SPLIT); } catch (...) { R->live_ranges--; throw; } }
    ~XRange() { R->live_ranges--; }
    bool empty() const { return r.empty(); }
    bool is_divisible() const { return r.is_divisible(); }
    int begin() const { return r.begin(); }
    int end() const { return r.end(); }
};
struct ForBody {
    ForBody() { R->live_bodies++; }
    ForBody(const ForBody&) { R->live_bodies++; }
    ~ForBody() { R->live_bodies--; }
    void operator()(const XRange&) const { body_work(); }
};
struct RedBody {
    long sum = 0;
    RedBody() { R->live_bodies++; }
    RedBody(RedBody&, tbb::split) { maybe_throw(S_BODY_SPLIT); R->live_bodies++; }
    ~RedBody() { R->live_bodies--; }
    void operator()(const XRange& x) { body_work(); sum += x.end() - x.begin(); }
    void join(RedBody& o) { maybe_throw(S_JOIN); sum += o.sum; }
};
// pipeline token that the library must keep on its heap (not trivially copyable, larger than a pointer)
struct Tok {
    static constexpr unsigned ALIVE = 0xa11fe5u, DEAD = 0xdeadu;
    int v; unsigned mark; char pad[48];
    explicit Tok(int x = 0) : v(x), mark(ALIVE) { R->live_tokens++; }
    Tok(const Tok& o) : v(o.v), mark(ALIVE) { R->live_tokens++; }
    Tok(Tok&& o) noexcept : v(o.v), mark(ALIVE) { R->live_tokens++; }
    Tok& operator=(const Tok& o) { v = o.v; return *this; }
    ~Tok() {
        if (R && mark != ALIVE) sim::fail("oracle:object-destroyed-twice", "[%s] a pipeline token object (value %d) is destroyed although it is not alive (destroyed twice)", g_ctx.c_str(), v);
        mark = DEAD; if (R) R->live_tokens--;
    }
};
struct Functor {
    Functor() { R->live_functors++; }
    Functor(const Functor&) { R->live_functors++; }
    ~Functor() { R->live_functors--; }
    void operator()() const { body_work(); }
};

enum Algo { A_PFOR, A_REDUCE, A_FOR_EACH, A_INVOKE, A_PIPELINE, A_TG_WAIT, A_TG_RAW, A_EXECUTE, A_FLOW, A_NALGO };
const char* const kAlgo[] = {"parallel_for", "parallel_reduce", "parallel_for_each", "parallel_invoke", "parallel_pipeline", "task_group::wait", "task_group::run_and_wait", "task_arena::execute", "flow_graph"};

struct Setup { Algo a; int n, grain, part, nested; tbb::task_arena* arena; };

void run_algo(const Setup& s, tbb::task_group* tg, tbb::flow::graph* g, tbb::flow::function_node<int, int>* fn) {
    switch (s.a) {
    case A_PFOR: {
        XRange range(0, s.n, s.grain); ForBody b;
        switch (s.part) {
        case 0: tbb::parallel_for(range, b, tbb::simple_partitioner()); break;
        case 1: tbb::parallel_for(range, b, tbb::auto_partitioner()); break;
        case 2: tbb::parallel_for(range, b, tbb::static_partitioner()); break;
        default: { tbb::affinity_partitioner ap; tbb::parallel_for(range, b, ap); break; }
        }
        break;
    }
    case A_REDUCE: { XRange range(0, s.n, s.grain); RedBody b; if (s.part % 2) tbb::parallel_reduce(range, b, tbb::simple_partitioner()); else tbb::parallel_reduce(range, b); break; }
    case A_FOR_EACH: { std::vector<int> v((size_t)s.n); tbb::parallel_for_each(v.begin(), v.end(), [](int) { body_work(); }); break; }
    case A_INVOKE: { Functor f; tbb::parallel_invoke(f, f, f, f); break; }
    case A_PIPELINE: if (s.part >= 2) {     // class-type tokens, filter modes from the plan
        int produced = 0;
        static const tbb::filter_mode fm[] = {tbb::filter_mode::parallel, tbb::filter_mode::serial_in_order, tbb::filter_mode::serial_out_of_order};
        tbb::parallel_pipeline((size_t)(1 + s.grain),
            tbb::make_filter<void, Tok>(tbb::filter_mode::serial_in_order, [&](tbb::flow_control& fc) -> Tok { if (produced >= s.n) { fc.stop(); return Tok(0); } return Tok(++produced); }) &
            tbb::make_filter<Tok, Tok>(fm[s.nested % 3], [](Tok x) { body_work(); return x; }) &
            tbb::make_filter<Tok, void>(fm[(s.nested / 3) % 3], [](const Tok&) { body_work(); }));
        break;
    } else {
        int produced = 0;
        tbb::parallel_pipeline((size_t)3,
            tbb::make_filter<void, int>(tbb::filter_mode::serial_in_order, [&](tbb::flow_control& fc) -> int { if (produced >= s.n) { fc.stop(); return 0; } return ++produced; }) &
            tbb::make_filter<int, int>(tbb::filter_mode::parallel, [](int x) { body_work(); return x; }) &
            tbb::make_filter<int, void>(tbb::filter_mode::serial_out_of_order, [](int) { body_work(); }));
        break;
    }
    // s.part odd: the work is submitted as task handles (defer + run / run_and_wait(task_handle&&))
    case A_TG_WAIT: { Functor f; for (int i = 0; i < s.n; ++i) { if (s.part & 1) tg->run(tg->defer(f)); else tg->run(f); } tg->wait(); break; }
    case A_TG_RAW: { Functor f; for (int i = 0; i + 1 < s.n; ++i) { if (s.part & 2) tg->run(tg->defer(f)); else tg->run(f); }
                     if (s.part & 1) tg->run_and_wait(tg->defer(f)); else tg->run_and_wait(f); break; }
    case A_EXECUTE: {
        // (a task_group must be waited for before it is destroyed, also on the exceptional path: the direct
        //  body runs before the inner group has tasks)
        s.arena->execute([&] { body_work(); Functor f; tbb::task_group inner; for (int i = 0; i < s.n; ++i) inner.run(f); inner.wait(); });
        break;
    }
    case A_FLOW: { for (int i = 0; i < s.n; ++i) fn->try_put(i); g->wait_for_all(); break; }
    default: break;
    }
}

}  // namespace

SIM_SCENARIO(scen_c03, "c03", "C03", 6000000, 30000) {
    hx::Desc d;
    hx::draw_runtime_config(d);
    Setup s;
    s.a = (Algo)sim::draw(A_NALGO, "algo");
    static const int ns[] = {1, 2, 3, 5, 8, 16, 40};
    s.n = sim::draw_of(ns, "n"); s.grain = (int)sim::draw_range(1, 3, "grain"); s.part = (int)sim::draw(4, "part");
    s.nested = s.a == A_PIPELINE ? (int)sim::draw(9, "filter_modes") : 0;
    tbb::task_arena arena((int)sim::draw_range(1, 4, "arena_conc"));
    s.arena = &arena;
    bool in_arena = sim::draw_bool("in_arena");
    // fault plan
    Round proto;
    int nsites = (int)sim::draw_range(1, 2, "nsites");
    std::string fp;
    for (int i = 0; i < nsites; ++i) {
        Site site = (Site)sim::draw(S_NSITES, "site");
        if (s.a != A_PFOR && s.a != A_REDUCE) site = S_BODY;
        if (s.a == A_PFOR && (site == S_BODY_SPLIT || site == S_JOIN)) site = S_BODY;
        proto.throw_at[site] = (int)sim::draw_range(1, 10, "throw_at");
        proto.throw_n[site] = (int)sim::draw_range(1, 4, "throw_n");
        fp += hx::fmt(" %s@%d x%d", kSite[site], proto.throw_at[site], proto.throw_n[site]);
    }
    bool ext_cancel = sim::draw(4, "ext_cancel") == 0 && (s.a == A_TG_WAIT || s.a == A_FLOW);
    static const int ptsv[] = {0, 2, 8, 30};
    proto.points = sim::draw_of(ptsv, "points");
    d.add(hx::fmt("%s%s n=%d grain=%d part=%d in_arena=%d throws:%s ext_cancel=%d points=%d", kAlgo[s.a], (s.a == A_TG_WAIT || s.a == A_TG_RAW) && (s.part & 1) ? "(task_handle)" : "", s.n, s.grain, s.part, (int)in_arena, fp.c_str(), (int)ext_cancel, proto.points));
    d.publish();
    {
        std::string sites;
        for (int i = 0; i < S_NSITES; ++i) if (proto.throw_at[i]) sites += std::string(sites.empty() ? "" : "+") + kSite[i];
        sim::set_tag("algo=%s sites=%s", kAlgo[s.a], sites.c_str());
        g_ctx = hx::fmt("algo=%s sites=%s", kAlgo[s.a], sites.c_str());
    }

    g_live_exceptions = 0;
    {
    tbb::task_group tg;
    tbb::flow::graph g;
    tbb::flow::function_node<int, int> fn(g, tbb::flow::unlimited, [](int x) { body_work(); return x; });
    // round 0: with the fault plan; round 1: same objects, nothing throws => must complete normally (state reusable)
    for (int round = 0; round < 2; ++round) {
        Round rd = proto; R = &rd;
        if (round == 1) { for (int i = 0; i < S_NSITES; ++i) rd.throw_at[i] = 0; if (s.a == A_FLOW) g.reset(); }
        int caught = 0, caught_tag = -1; bool other = false;
        int canceller = -1;
        if (ext_cancel && round == 0) canceller = sim::spawn([&] { for (int i = 0; i < 12; ++i) sim::upoint(); sim::fault_fired("cancel"); if (s.a == A_FLOW) g.cancel(); else tg.cancel(); }, "canceller");
        auto call = [&] {
            try { run_algo(s, &tg, &g, &fn); }
            catch (tagged& t) { ++caught; caught_tag = t.tag; }
            catch (...) { other = true; }
        };
        if (in_arena && s.a != A_EXECUTE) arena.execute(call); else call();
        rd.exited = true;
        SIM_CHECK(rd.live == 0, "oracle:body-running-at-exit", "%s exited (round %d) while %d body invocation(s) of the group are still running", kAlgo[s.a], round, rd.live);
        SIM_CHECK(!other, "oracle:wrong-exception", "%s threw an exception that no body of the group threw", kAlgo[s.a]);
        if (!rd.thrown.empty() && ext_cancel && round == 0) {
            // the group was (possibly) already cancelled by the explicit cancel() when the body threw: oneTBB then
            // reports the cancellation, not the exception ("had another way to report it"); at most one exception
            SIM_CHECK(caught <= 1, "oracle:exception-lost", "%s reported %d exceptions", kAlgo[s.a], caught);
        } else if (!rd.thrown.empty()) {
            SIM_CHECK(caught == 1, "oracle:exception-lost", "%d body invocation(s) threw (tags %d..) but %s reported %d exception(s) to its caller", (int)rd.thrown.size(), rd.thrown[0], kAlgo[s.a], caught);
            bool member = false; for (int t : rd.thrown) if (t == caught_tag) member = true;
            SIM_CHECK(member, "oracle:wrong-exception", "%s rethrew tag %d which was not thrown by this group", kAlgo[s.a], caught_tag);
            if (s.a == A_FLOW) SIM_CHECK(g.exception_thrown(), "oracle:exception-lost", "graph::exception_thrown() is false after a body threw");
        } else {
            SIM_CHECK(caught == 0, "oracle:wrong-exception", "%s threw although no body threw", kAlgo[s.a]);
            if (round == 1 && !(ext_cancel)) {
                // the second round must have done all of its work
                if (s.a == A_TG_WAIT || s.a == A_TG_RAW) SIM_CHECK(rd.started == s.n, "oracle:not-reusable", "task_group ran %d of %d tasks in the round after the exception", rd.started, s.n);
                if (s.a == A_FLOW) SIM_CHECK(rd.started == s.n, "oracle:not-reusable", "graph ran %d of %d bodies in the round after the exception (after reset)", rd.started, s.n);
                if (s.a == A_FOR_EACH) SIM_CHECK(rd.started == s.n, "oracle:not-reusable", "parallel_for_each ran %d of %d bodies", rd.started, s.n);
            }
        }
        if (canceller >= 0) sim::join(canceller);
        // a few more schedule points: a late body would trip the BodyScope check
        for (int i = 0; i < 20; ++i) sim::upoint();
        SIM_CHECK(rd.live_ranges == 0, "oracle:object-balance", "[%s] %ld Range objects of the cancelled work were not destroyed (or destroyed twice)", g_ctx.c_str(), rd.live_ranges);
        SIM_CHECK(rd.live_bodies == 0, "oracle:object-balance", "[%s] %ld Body objects of the cancelled work were not destroyed (or destroyed twice)", g_ctx.c_str(), rd.live_bodies);
        SIM_CHECK(rd.live_tokens == 0, "oracle:object-balance", "[%s filter_modes=%d] %ld pipeline token object(s) created by the library for the cancelled work were not destroyed", g_ctx.c_str(), s.nested, rd.live_tokens);
        SIM_CHECK(rd.live_functors == 0, "oracle:object-balance", "%ld functor copies of the cancelled work were not destroyed (or destroyed twice)", rd.live_functors);
        if (rd.thrown.size() >= 2) sim::probe("several-throwers");
        R = nullptr;
    }
    }   // task_group, graph and their contexts are gone: every captured exception must have been released
    SIM_CHECK(g_live_exceptions == 0, "oracle:object-balance", "[%s] %d user exception object(s) captured by the library were never destroyed", g_ctx.c_str(), g_live_exceptions);
}
