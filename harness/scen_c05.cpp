// C05 — parallel_for / parallel_for_each / parallel_invoke: every element exactly once, legal chunks.
#include "rt_common.h"
#include "oneapi/tbb/parallel_for.h"
#include "oneapi/tbb/parallel_for_each.h"
#include "oneapi/tbb/parallel_invoke.h"
#include "oneapi/tbb/blocked_range.h"
#include "oneapi/tbb/blocked_range2d.h"
#include "oneapi/tbb/blocked_range3d.h"
#include "oneapi/tbb/blocked_nd_range.h"
#include <list>

namespace {

struct Chunk { uint64_t b, e; };
struct Rec {
    std::vector<Chunk> chunks;
    uint64_t lo = 0, hi = 0, grain = 1;
    int splits = 0, psplits = 0;
    int live_bodies = 0;
};
Rec* R = nullptr;

// blocked_range<uint64_t> with instrumented splitting constructors
struct TRange {
    tbb::blocked_range<uint64_t> r;
    TRange(uint64_t b, uint64_t e, uint64_t g) : r(b, e, (size_t)g) {}
    bool empty() const { return r.empty(); }
    bool is_divisible() const { return r.is_divisible(); }
    uint64_t begin() const { return r.begin(); }
    uint64_t end() const { return r.end(); }
    uint64_t size() const { return r.size(); }
    TRange(TRange& o, tbb::split s) : r((check_src(o), o.r), s) { R->splits++; check_halves(o); }
    TRange(TRange& o, tbb::proportional_split& p) : r((check_src(o), o.r), p) { R->psplits++; check_halves(o); }
    static void check_src(const TRange& o) {
        SIM_CHECK(o.r.is_divisible(), "oracle:split-indivisible", "a range [%llu,%llu) grain %llu that is not divisible was passed to a splitting constructor",
                  (unsigned long long)o.r.begin(), (unsigned long long)o.r.end(), (unsigned long long)o.r.grainsize());
    }
    void check_halves(const TRange& o) const {
        SIM_CHECK(!r.empty() && !o.r.empty(), "oracle:empty-chunk", "split produced an empty half: [%llu,%llu) and [%llu,%llu)",
                  (unsigned long long)o.r.begin(), (unsigned long long)o.r.end(), (unsigned long long)r.begin(), (unsigned long long)r.end());
        SIM_CHECK(o.r.end() == r.begin(), "oracle:chunk-overlap", "split halves are not adjacent");
    }
    static constexpr bool is_splittable_in_proportion = true;
};

void check_chunks(const char* what, bool simple) {
    Rec& rc = *R;
    uint64_t n = rc.hi - rc.lo;
    std::vector<Chunk> c = rc.chunks;
    std::sort(c.begin(), c.end(), [](const Chunk& a, const Chunk& b) { return a.b < b.b; });
    uint64_t pos = rc.lo;
    for (auto& k : c) {
        SIM_CHECK(k.b < k.e, "oracle:empty-chunk", "%s: body received an empty subrange [%llu,%llu)", what, (unsigned long long)k.b, (unsigned long long)k.e);
        SIM_CHECK(k.b >= rc.lo && k.e <= rc.hi, "oracle:chunk-out-of-bounds", "%s: subrange [%llu,%llu) outside [%llu,%llu)", what, (unsigned long long)k.b, (unsigned long long)k.e,
                  (unsigned long long)rc.lo, (unsigned long long)rc.hi);
        SIM_CHECK(k.b >= pos, "oracle:chunk-overlap", "%s: subrange [%llu,%llu) overlaps the previous one ending at %llu (element visited twice)", what, (unsigned long long)k.b, (unsigned long long)k.e, (unsigned long long)pos);
        SIM_CHECK(k.b == pos, "oracle:chunk-gap", "%s: elements [%llu,%llu) were never visited", what, (unsigned long long)pos, (unsigned long long)k.b);
        pos = k.e;
        if (simple && n > rc.grain) {
            uint64_t sz = k.e - k.b, g = rc.grain;
            SIM_CHECK(sz <= g && sz >= (g + 1) / 2, "oracle:chunk-size-bound", "%s: simple_partitioner chunk of size %llu outside [ceil(g/2), g] for g=%llu (range size %llu)", what,
                      (unsigned long long)sz, (unsigned long long)g, (unsigned long long)n);
        }
    }
    SIM_CHECK(pos == rc.hi, "oracle:chunk-gap", "%s: elements [%llu,%llu) were never visited", what, (unsigned long long)pos, (unsigned long long)rc.hi);
    if (n == 0) SIM_CHECK(c.empty(), "oracle:empty-chunk", "%s: body invoked for an empty range", what);
}

const char* const kPart[] = {"simple", "auto", "static", "affinity"};

template <class Range, class Body>
void run_pfor(const Range& range, const Body& body, int part, tbb::affinity_partitioner& ap) {
    switch (part) {
    case 0: tbb::parallel_for(range, body, tbb::simple_partitioner()); break;
    case 1: tbb::parallel_for(range, body, tbb::auto_partitioner()); break;
    case 2: tbb::parallel_for(range, body, tbb::static_partitioner()); break;
    default: tbb::parallel_for(range, body, ap); break;
    }
}

uint64_t draw_size() {
    static const uint64_t sizes[] = {0, 1, 2, 3, 5, 7, 8, 13, 16, 17, 31, 32, 33, 63, 64, 65, 97, 127, 128, 129, 255, 256, 257, 511, 513, 1000, 1023, 1024, 1025, 2047, 4093, 4096};
    return sizes[sim::draw(sizeof sizes / sizeof sizes[0], "size")];
}

void scen_1d(hx::Desc& d, int part) {
    Rec rc; R = &rc;
    bool huge = sim::draw(5, "huge") == 0;
    uint64_t n, g, lo;
    if (huge) {
        static const uint64_t big[] = {(1ull << 24) + 1, (1ull << 32) - 1, (1ull << 32) + 3, (1ull << 40) + 12345, (1ull << 62) + 7, ~0ull - 5};
        n = big[sim::draw(6, "big")];
        lo = sim::draw_bool("lo") ? 0 : 3;
        if (n > ~0ull - lo) n = ~0ull - lo;
        uint64_t div = 1ull << sim::draw_range(3, 9, "chunks_log2");
        g = part == 0 ? n / div + sim::draw(3, "gadd") : (sim::draw_bool("g1") ? 1 : n / div + 1);
        if (g == 0) g = 1;
    } else {
        n = draw_size(); lo = sim::draw(3, "lo") * 5;
        static const int gk[] = {1, 1, 2, 3, 4, 7, 8, 16, 100};
        g = (uint64_t)sim::draw_of(gk, "grain");
        if (sim::draw(6, "gn") == 0) g = n + sim::draw(3, "gadd");   // grain around the size
        if (g == 0) g = 1;
    }
    rc.lo = lo; rc.hi = lo + n; rc.grain = g;
    int rounds = part == 3 ? 2 : 1;
    static const int ptsv[] = {0, 1, 4, 15, 40};
    int pts = sim::draw_of(ptsv, "points");
    // which chunks are slow decides who steals from whom (drives the adaptive depth / demand logic):
    // 0 all chunks alike, 1 only the thread that called parallel_for is slow ("slow victim, hungry thieves"),
    // 2 pseudo-random per chunk
    int delay_mode = (int)sim::draw(3, "delay_mode");
    int caller = sim::self();
    d.add(hx::fmt("parallel_for 1d [%llu,%llu) grain=%llu %s%s", (unsigned long long)rc.lo, (unsigned long long)rc.hi, (unsigned long long)g, kPart[part], huge ? " (huge: chunk accounting only)" : ""));
    d.add(hx::fmt("points=%d delay_mode=%d", pts, delay_mode));
    d.publish();
    std::vector<uint8_t> visits(huge ? 0 : (size_t)n, 0);
    tbb::affinity_partitioner ap;
    for (int r = 0; r < rounds; ++r) {
        rc.chunks.clear(); std::fill(visits.begin(), visits.end(), 0);
        auto body = [&](const TRange& t) {
            if (++rc.live_bodies >= 2) sim::mark_window();
            rc.chunks.push_back({t.begin(), t.end()});
            SIM_CHECK(rc.chunks.size() <= 70000, "oracle:chunk-overlap", "far too many chunks");
            if (!huge) for (uint64_t i = t.begin(); i < t.end(); ++i) {
                SIM_CHECK(i >= rc.lo && i < rc.hi, "oracle:chunk-out-of-bounds", "index %llu outside the iteration space", (unsigned long long)i);
                visits[(size_t)(i - rc.lo)]++;
            }
            int mypts = pts;
            if (delay_mode == 1) mypts = sim::self() == caller ? pts * 3 : 0;
            else if (delay_mode == 2) mypts = (int)(((t.begin() * 0x9e3779b97f4a7c15ull) >> 40) % (uint64_t)(pts + 1));
            for (int k = 0; k < mypts; ++k) sim::upoint();
            --rc.live_bodies;
        };
        run_pfor(TRange(rc.lo, rc.hi, g), body, part, ap);
        check_chunks("parallel_for", part == 0);
        for (size_t i = 0; i < visits.size(); ++i)
            SIM_CHECK(visits[i] == 1, "oracle:visit-count", "element %zu visited %d times", i + (size_t)rc.lo, (int)visits[i]);
    }
    R = nullptr;
}

void scen_int(hx::Desc& d, int part) {
    long first = (long)sim::draw(5, "first") - 2, step = (long)sim::draw_range(1, 4, "step");
    long cnt = (long)draw_size() % 600;
    long last = first + cnt * step - (cnt ? (long)sim::draw((uint64_t)step, "slack") : 0);
    d.add(hx::fmt("parallel_for(first=%ld,last=%ld,step=%ld) %s", first, last, step, kPart[part]));
    d.publish();
    std::map<long, int> seen;
    tbb::affinity_partitioner ap;
    auto f = [&](long i) { seen[i]++; sim::upoint(); };
    switch (part) {
    case 0: tbb::parallel_for(first, last, step, f, tbb::simple_partitioner()); break;
    case 1: tbb::parallel_for(first, last, step, f, tbb::auto_partitioner()); break;
    case 2: tbb::parallel_for(first, last, step, f, tbb::static_partitioner()); break;
    default: tbb::parallel_for(first, last, step, f, ap); break;
    }
    long expect = 0;
    for (long i = first; i < last; i += step) { ++expect; SIM_CHECK(seen[i] == 1, "oracle:visit-count", "index %ld visited %d times", i, seen[i]); }
    SIM_CHECK((long)seen.size() == expect, "oracle:chunk-out-of-bounds", "%zu distinct indices visited, expected %ld", seen.size(), expect);
}

// Index form over a span close to the whole value range of the index type ("every range size ... to the largest
// representable"): few iterations, huge steps; unsigned index types of 16, 32 and 64 bits.
template <class I> void index_wide(hx::Desc& d, int part, const char* tname) {
    const I maxv = ~(I)0;
    int iters = (int)sim::draw_range(1, 300, "wide_iters");
    I step = (I)(maxv / (I)iters); if (step > 1 && sim::draw_bool("wide_step_smaller")) step = (I)(step - (I)sim::draw((uint64_t)(step > 1000 ? 1000 : step - 1), "wide_step_adj"));
    if (step == 0) step = 1;
    I first = (I)sim::draw(3, "wide_first");
    I last = sim::draw(3, "wide_last") == 0 ? (I)(maxv - (I)sim::draw(3, "wide_last_adj")) : (I)(first + (I)(step * (I)(iters - 1)) + 1 + (I)sim::draw((uint64_t)(step > 1 ? step - 1 : 1), "wide_slack"));
    if (last < first) last = maxv;
    // iteration count as the sequential loop has it (no overflow: stop when the next index would pass last)
    std::vector<unsigned long long> expect;
    for (I i = first; i < last;) { expect.push_back((unsigned long long)i); if (expect.size() > 70000) break; if ((I)(last - i) <= step) break; i = (I)(i + step); }
    if (expect.size() > 70000) { last = (I)(first + step * (I)200 + 1); expect.clear(); for (I i = first; i < last;) { expect.push_back((unsigned long long)i); if ((I)(last - i) <= step) break; i = (I)(i + step); } }
    d.add(hx::fmt("parallel_for<%s>(first=%llu,last=%llu,step=%llu) %s: %zu iterations", tname, (unsigned long long)first, (unsigned long long)last, (unsigned long long)step, kPart[part], expect.size()));
    d.publish();
    std::map<unsigned long long, int> seen;
    tbb::affinity_partitioner ap;
    auto f = [&](I i) { seen[(unsigned long long)i]++; sim::upoint(); SIM_CHECK(seen.size() <= expect.size() + 8, "oracle:chunk-out-of-bounds", "the body is called for more distinct indices than the loop has"); };
    switch (part) {
    case 0: tbb::parallel_for(first, last, step, f, tbb::simple_partitioner()); break;
    case 1: tbb::parallel_for(first, last, step, f, tbb::auto_partitioner()); break;
    case 2: tbb::parallel_for(first, last, step, f, tbb::static_partitioner()); break;
    default: tbb::parallel_for(first, last, step, f, ap); break;
    }
    for (unsigned long long i : expect) SIM_CHECK(seen[i] == 1, "oracle:visit-count", "index %llu visited %d times (loop of %zu iterations over nearly the whole range of %s)", i, seen[i], expect.size(), tname);
    SIM_CHECK(seen.size() == expect.size(), "oracle:chunk-out-of-bounds", "%zu distinct indices visited, expected %zu", seen.size(), expect.size());
}
void scen_int_wide(hx::Desc& d, int part) {
    switch (sim::draw(3, "wide_type")) {
    case 0: index_wide<unsigned short>(d, part, "unsigned short"); break;
    case 1: index_wide<unsigned>(d, part, "unsigned"); break;
    default: index_wide<size_t>(d, part, "size_t"); break;
    }
}

void scen_nd(hx::Desc& d, int part) {
    int dims = (int)sim::draw_range(2, 3, "dims");
    int kind = (int)sim::draw(2, "ndkind");   // 0: blocked_range2d/3d, 1: blocked_nd_range
    static const int ext[] = {0, 1, 2, 3, 5, 8, 9, 16, 17};
    int n0 = sim::draw_of(ext, "n0"), n1 = sim::draw_of(ext, "n1"), n2 = dims == 3 ? sim::draw_of(ext, "n2") % 9 : 1;
    int g0 = (int)sim::draw_range(1, 4, "g0"), g1 = (int)sim::draw_range(1, 4, "g1"), g2 = (int)sim::draw_range(1, 3, "g2");
    d.add(hx::fmt("parallel_for %dd %s extents=%dx%dx%d grains=%d,%d,%d %s", dims, kind ? "blocked_nd_range" : "blocked_rangeNd", n0, n1, n2, g0, g1, g2, kPart[part]));
    d.publish();
    std::vector<uint8_t> v((size_t)n0 * n1 * n2, 0);
    int nchunks = 0;
    auto visit = [&](int i, int j, int k) {
        SIM_CHECK(i >= 0 && i < n0 && j >= 0 && j < n1 && k >= 0 && k < n2, "oracle:chunk-out-of-bounds", "cell (%d,%d,%d) outside the iteration space", i, j, k);
        v[((size_t)i * n1 + j) * n2 + k]++;
    };
    tbb::affinity_partitioner ap;
    if (dims == 2 && kind == 0) {
        run_pfor(tbb::blocked_range2d<int>(0, n0, g0, 0, n1, g1), [&](const tbb::blocked_range2d<int>& r) {
            SIM_CHECK(!r.empty(), "oracle:empty-chunk", "empty 2d subrange"); ++nchunks;
            for (int i = r.rows().begin(); i < r.rows().end(); ++i) for (int j = r.cols().begin(); j < r.cols().end(); ++j) visit(i, j, 0);
            sim::upoint(); }, part, ap);
    } else if (dims == 3 && kind == 0) {
        run_pfor(tbb::blocked_range3d<int>(0, n0, g0, 0, n1, g1, 0, n2, g2), [&](const tbb::blocked_range3d<int>& r) {
            SIM_CHECK(!r.empty(), "oracle:empty-chunk", "empty 3d subrange"); ++nchunks;
            for (int i = r.pages().begin(); i < r.pages().end(); ++i) for (int j = r.rows().begin(); j < r.rows().end(); ++j)
                for (int k = r.cols().begin(); k < r.cols().end(); ++k) visit(i, j, k);
            sim::upoint(); }, part, ap);
    } else if (dims == 2) {
        using ND = tbb::blocked_nd_range<int, 2>;
        run_pfor(ND({0, n0, (size_t)g0}, {0, n1, (size_t)g1}), [&](const ND& r) {
            SIM_CHECK(!r.empty(), "oracle:empty-chunk", "empty nd subrange"); ++nchunks;
            for (int i = r.dim(0).begin(); i < r.dim(0).end(); ++i) for (int j = r.dim(1).begin(); j < r.dim(1).end(); ++j) visit(i, j, 0);
            sim::upoint(); }, part, ap);
    } else {
        using ND = tbb::blocked_nd_range<int, 3>;
        run_pfor(ND({0, n0, (size_t)g0}, {0, n1, (size_t)g1}, {0, n2, (size_t)g2}), [&](const ND& r) {
            SIM_CHECK(!r.empty(), "oracle:empty-chunk", "empty nd subrange"); ++nchunks;
            for (int i = r.dim(0).begin(); i < r.dim(0).end(); ++i) for (int j = r.dim(1).begin(); j < r.dim(1).end(); ++j)
                for (int k = r.dim(2).begin(); k < r.dim(2).end(); ++k) visit(i, j, k);
            sim::upoint(); }, part, ap);
    }
    for (size_t i = 0; i < v.size(); ++i) SIM_CHECK(v[i] == 1, "oracle:visit-count", "cell #%zu visited %d times", i, (int)v[i]);
    if (v.empty()) SIM_CHECK(nchunks == 0, "oracle:empty-chunk", "body invoked for an empty iteration space");
}

// huge 2d / 3d / nd iteration spaces (extents and grain sizes of 2^20 .. 2^41 per dimension: size * grainsize products
// beyond 2^64): chunk-level accounting only.  Every chunk non-empty and in bounds, a dimension whose size does not
// exceed its grain size is never cut, chunks pairwise disjoint and their volumes add up to the whole space,
// simple_partitioner leaves every cut dimension in [ceil(g/2), g].
void scen_nd_huge(hx::Desc& d, int part) {
    int dims = (int)sim::draw_range(2, 3, "dims");
    int kind = (int)sim::draw(2, "ndkind");
    size_t n[3] = {1, 1, 1}, g[3] = {1, 1, 1};
    unsigned __int128 nchunks_bound = 1;
    std::string s;
    for (int k = 0; k < dims; ++k) {
        int e = (int)sim::draw_range(20, 41, "grain_log2");
        g[k] = ((size_t)1 << e) + (size_t)sim::draw(3, "gadj") - 1;
        if (sim::draw(3, "indivisible") == 0) { static const size_t small[] = {1, 2, 3, 24, 1000}; n[k] = sim::draw(2, "full") ? g[k] : small[sim::draw(5, "small")]; }
        else { size_t m = (size_t)sim::draw_range(1, 4, "mult"); n[k] = g[k] * m + (size_t)sim::draw(3, "rem") * (g[k] / 3); nchunks_bound *= 2 * (m + 1); }
        s += hx::fmt(" [0,%zu)/g=%zu", n[k], g[k]);
    }
    if (nchunks_bound > 256) { n[0] = g[0]; }      // keep the number of chunks small
    d.add(hx::fmt("parallel_for huge %dd %s%s %s (chunk accounting only)", dims, kind ? "blocked_nd_range" : "blocked_rangeNd", s.c_str(), kPart[part]));
    d.publish();
    struct Box { size_t b[3], e[3]; };
    std::vector<Box> boxes;
    auto rec = [&](size_t b0, size_t e0, size_t b1, size_t e1, size_t b2, size_t e2) {
        Box x{{b0, b1, b2}, {e0, e1, e2}};
        for (int k = 0; k < dims; ++k) {
            SIM_CHECK(x.b[k] < x.e[k], "oracle:empty-chunk", "huge nd: body received a subrange that is empty in dimension %d: [%zu,%zu)", k, x.b[k], x.e[k]);
            SIM_CHECK(x.e[k] <= n[k], "oracle:chunk-out-of-bounds", "huge nd: subrange [%zu,%zu) outside [0,%zu) in dimension %d", x.b[k], x.e[k], n[k], k);
            if (n[k] <= g[k]) SIM_CHECK(x.b[k] == 0 && x.e[k] == n[k], "oracle:indivisible-split", "huge nd: dimension %d (size %zu <= grain %zu) is not divisible but was cut into [%zu,%zu)", k, n[k], g[k], x.b[k], x.e[k]);
            else if (part == 0) { size_t sz = x.e[k] - x.b[k]; SIM_CHECK(sz <= g[k] && sz >= (g[k] + 1) / 2, "oracle:chunk-size-bound", "huge nd: simple_partitioner left dimension %d with extent %zu outside [ceil(g/2), g], g=%zu", k, sz, g[k]); }
        }
        boxes.push_back(x);
        SIM_CHECK(boxes.size() <= 4000, "oracle:chunk-overlap", "huge nd: far too many chunks (splitting does not terminate?)");
        sim::upoint();
    };
    tbb::affinity_partitioner ap;
    if (dims == 2 && kind == 0) run_pfor(tbb::blocked_range2d<size_t>(0, n[0], g[0], 0, n[1], g[1]), [&](const tbb::blocked_range2d<size_t>& r) { rec(r.rows().begin(), r.rows().end(), r.cols().begin(), r.cols().end(), 0, 1); }, part, ap);
    else if (dims == 3 && kind == 0) run_pfor(tbb::blocked_range3d<size_t>(0, n[0], g[0], 0, n[1], g[1], 0, n[2], g[2]),
                                              [&](const tbb::blocked_range3d<size_t>& r) { rec(r.pages().begin(), r.pages().end(), r.rows().begin(), r.rows().end(), r.cols().begin(), r.cols().end()); }, part, ap);
    else if (dims == 2) { using ND = tbb::blocked_nd_range<size_t, 2>; run_pfor(ND({0, n[0], g[0]}, {0, n[1], g[1]}), [&](const ND& r) { rec(r.dim(0).begin(), r.dim(0).end(), r.dim(1).begin(), r.dim(1).end(), 0, 1); }, part, ap); }
    else { using ND = tbb::blocked_nd_range<size_t, 3>; run_pfor(ND({0, n[0], g[0]}, {0, n[1], g[1]}, {0, n[2], g[2]}),
                                                                  [&](const ND& r) { rec(r.dim(0).begin(), r.dim(0).end(), r.dim(1).begin(), r.dim(1).end(), r.dim(2).begin(), r.dim(2).end()); }, part, ap); }
    unsigned __int128 vol = 0, total = 1;
    for (int k = 0; k < dims; ++k) total *= n[k];
    for (size_t i = 0; i < boxes.size(); ++i) {
        unsigned __int128 v = 1; for (int k = 0; k < dims; ++k) v *= boxes[i].e[k] - boxes[i].b[k];
        vol += v;
        for (size_t j = 0; j < i; ++j) {
            bool overlap = true;
            for (int k = 0; k < dims; ++k) if (boxes[i].e[k] <= boxes[j].b[k] || boxes[j].e[k] <= boxes[i].b[k]) overlap = false;
            SIM_CHECK(!overlap, "oracle:chunk-overlap", "huge nd: chunks #%zu and #%zu overlap", j, i);
        }
    }
    SIM_CHECK(vol == total, "oracle:chunk-gap", "huge nd: the chunks cover %s of the iteration space", vol < total ? "less than all" : "more than all");
}

void scen_for_each(hx::Desc& d) {
    int n = (int)draw_size() % 40;
    bool fwd = sim::draw_bool("forward_iter");
    int feed_every = (int)sim::draw(4, "feed_every");   // 0: no feeder
    int feed_budget = feed_every ? (int)sim::draw_range(1, 8, "feed_budget") : 0;
    d.add(hx::fmt("parallel_for_each n=%d %s feeder_every=%d feed_budget=%d", n, fwd ? "forward(list)" : "random-access(vector)", feed_every, feed_budget));
    d.publish();
    std::map<int, int> seen;
    int fed = 0, live = 0;
    auto body = [&](int x, tbb::feeder<int>& fd) {
        if (++live >= 2) sim::mark_window();
        seen[x]++;
        sim::upoint();
        if (feed_every && x % feed_every == 0 && fed < feed_budget) { int id = 1000 + fed++; fd.add(id); }
        --live;
    };
    if (fwd) { std::list<int> l; for (int i = 0; i < n; ++i) l.push_back(i); tbb::parallel_for_each(l.begin(), l.end(), body); }
    else { std::vector<int> v; for (int i = 0; i < n; ++i) v.push_back(i); tbb::parallel_for_each(v.begin(), v.end(), body); }
    for (int i = 0; i < n; ++i) SIM_CHECK(seen[i] == 1, "oracle:visit-count", "item %d processed %d times", i, seen[i]);
    for (int i = 0; i < fed; ++i) SIM_CHECK(seen[1000 + i] == 1, "oracle:visit-count", "item %d added through the feeder was processed %d times", 1000 + i, seen[1000 + i]);
    SIM_CHECK((int)seen.size() == n + fed, "oracle:chunk-out-of-bounds", "%zu distinct items processed, expected %d", seen.size(), n + fed);
}

void scen_invoke(hx::Desc& d) {
    int n = (int)sim::draw_range(2, 10, "nfun");
    d.add(hx::fmt("parallel_invoke with %d functors", n));
    d.publish();
    int cnt[10] = {0};
    int live = 0;
#define FN(i) [&] { if (++live >= 2) sim::mark_window(); cnt[i]++; sim::upoint(); --live; }
    switch (n) {
    case 2: tbb::parallel_invoke(FN(0), FN(1)); break;
    case 3: tbb::parallel_invoke(FN(0), FN(1), FN(2)); break;
    case 4: tbb::parallel_invoke(FN(0), FN(1), FN(2), FN(3)); break;
    case 5: tbb::parallel_invoke(FN(0), FN(1), FN(2), FN(3), FN(4)); break;
    case 6: tbb::parallel_invoke(FN(0), FN(1), FN(2), FN(3), FN(4), FN(5)); break;
    case 7: tbb::parallel_invoke(FN(0), FN(1), FN(2), FN(3), FN(4), FN(5), FN(6)); break;
    case 8: tbb::parallel_invoke(FN(0), FN(1), FN(2), FN(3), FN(4), FN(5), FN(6), FN(7)); break;
    case 9: tbb::parallel_invoke(FN(0), FN(1), FN(2), FN(3), FN(4), FN(5), FN(6), FN(7), FN(8)); break;
    default: tbb::parallel_invoke(FN(0), FN(1), FN(2), FN(3), FN(4), FN(5), FN(6), FN(7), FN(8), FN(9)); break;
    }
#undef FN
    for (int i = 0; i < 10; ++i) SIM_CHECK(cnt[i] == (i < n ? 1 : 0), "oracle:visit-count", "functor %d invoked %d times", i, cnt[i]);
}

}  // namespace

SIM_SCENARIO(scen_c05, "c05", "C05", 6000000, 30000) {
    hx::Desc d;
    hx::draw_runtime_config(d);
    int conc = (int)sim::draw(5, "arena_conc");   // 0: implicit arena, else explicit arena of that size
    int kind = (int)sim::draw(8, "kind");
    int part = (int)sim::draw(4, "partitioner");
    auto work = [&] {
        switch (kind) {
        case 0: case 1: case 2: scen_1d(d, part); break;
        case 3: if (sim::draw(3, "int_wide") == 0) scen_int_wide(d, part); else scen_int(d, part); break;
        case 4: case 5: if (sim::draw(3, "nd_huge") == 0) scen_nd_huge(d, part); else scen_nd(d, part); break;
        case 6: scen_for_each(d); break;
        default: scen_invoke(d); break;
        }
    };
    if (conc) { d.add(hx::fmt("arena(%d)", conc)); tbb::task_arena a(conc); a.execute(work); }
    else work();
}
