// C04 — cancel_group_execution: one winner among concurrent callers; every context bound beneath a cancelled
// context ends up cancelled (also those being bound while the cancellation propagates); nothing else is
// cancelled; the flag persists.
#include "rt_common.h"
#include "oneapi/tbb/parallel_for.h"
#include "oneapi/tbb/blocked_range.h"
#include "oneapi/tbb/task_group.h"

namespace {
struct Node {
    bool isolated = false;
    int parent = -1;
    std::vector<int> kids;
    std::vector<int> cancels;     // contexts this node's body cancels (by id), one per iteration slot at most
    int points = 0;
    tbb::task_group_context* ctx = nullptr;
    bool invoked = false, returned = false;
    int cancel_calls = 0, cancel_true = 0;
    sim::event* before_child = nullptr;   // focus mode: signalled just before the first child's algorithm starts
};
std::vector<Node>* T = nullptr;

void do_cancel(int target) {
    Node& n = (*T)[(size_t)target];
    sim::note("cancel ctx%d (%p) begin", target, (void*)n.ctx);
    bool r = n.ctx->cancel_group_execution();
    sim::note("cancel ctx%d -> %d", target, (int)r);
    n.cancel_calls++; if (r) n.cancel_true++;
    sim::fault_fired("cancel");
}

void run_node(int i) {
    Node& n = (*T)[(size_t)i];
    int nk = (int)n.kids.size();
    int iters = std::max(nk, std::max(1, (int)n.cancels.size()));
    n.invoked = true;
    sim::note("invoke ctx%d (%p)", i, (void*)n.ctx);
    tbb::parallel_for(tbb::blocked_range<int>(0, iters, 1), [i](const tbb::blocked_range<int>& r) {
        Node& me = (*T)[(size_t)i];
        for (int j = r.begin(); j < r.end(); ++j) {
            for (int k = 0; k < me.points; ++k) sim::upoint();
            if (j < (int)me.cancels.size()) do_cancel(me.cancels[(size_t)j]);
            if (j < (int)me.kids.size()) { if (me.before_child) me.before_child->signal(); run_node(me.kids[(size_t)j]); }
        }
    }, tbb::simple_partitioner(), *n.ctx);
    n.returned = true;
    sim::note("returned ctx%d cancelled=%d", i, (int)n.ctx->is_group_execution_cancelled());
}
}

// focus: a chain of 3-4 bound contexts under store buffers, one cancel aimed at an inner context while its first
// child is being bound (the window between "parent may have children" and the speculative read of its state);
// the cancelling thread is already known to the scheduler, otherwise its initialisation inside
// cancel_group_execution (between the state change and the propagation) closes the window
static void c04_body(bool focus) {
    hx::Desc d;
    hx::draw_runtime_config(d);
    sim::g_cfg.tso = focus ? true : sim::draw_bool("tso");
    std::vector<Node> tree; T = &tree;
    int nnodes = focus ? (int)sim::draw_range(3, 4, "nodes") : (int)sim::draw_range(2, 12, "nodes");
    int nroots = focus ? 1 : (int)sim::draw_range(1, 2, "roots");
    tree.resize((size_t)nnodes);
    for (int i = 0; i < nnodes; ++i) {
        Node& n = tree[(size_t)i];
        n.isolated = focus ? false : i < nroots ? sim::draw_bool("iso_root") : sim::draw(5, "isolated") == 0;
        if (i >= nroots) { n.parent = focus ? i - 1 : (int)sim::draw((uint64_t)i, "parent"); tree[(size_t)n.parent].kids.push_back(i); }
        n.points = (int)sim::draw(6, "points");
    }
    int ncancels = focus ? 1 : (int)sim::draw_range(1, 3, "ncancels");
    std::vector<std::pair<int, int>> ext;   // external cancellers: (target, delay)
    std::string cs;
    for (int c = 0; c < ncancels; ++c) {
        int target = focus ? (int)sim::draw_range(1, nnodes - 2, "target") : (int)sim::draw((uint64_t)nnodes, "target");
        if (focus || sim::draw(3, "external") == 0) { int delay = (int)sim::draw(focus ? 30 : 200, "delay"); ext.push_back({target, delay}); cs += hx::fmt(" ext->%d@%d", target, delay); }
        else { int by = (int)sim::draw((uint64_t)nnodes, "by"); tree[(size_t)by].cancels.push_back(target); cs += hx::fmt(" %d->%d", by, target); }
    }
    std::string ts;
    for (int i = 0; i < nnodes; ++i) ts += hx::fmt(" %d%s<-%d", i, tree[(size_t)i].isolated ? "i" : "b", tree[(size_t)i].parent);
    d.add(hx::fmt("contexts:%s cancels:%s tso=%d", ts.c_str(), cs.c_str(), (int)sim::g_cfg.tso));
    d.publish();
    for (auto& n : tree) {
        n.ctx = new tbb::task_group_context(n.isolated ? tbb::task_group_context::isolated : tbb::task_group_context::bound);
        sim::tso_register(n.ctx, sizeof(*n.ctx));
    }
    int conc = focus ? 0 : (int)sim::draw(4, "arena_conc");
    // The threads that bound the contexts stay alive until the oracle has looked (a context that outlives the
    // thread it was bound on is orphaned and no longer reached by propagation; nothing runs in it any more,
    // so that case is outside what the property is about).
    sim::event checked;
    std::vector<std::function<void()>> fns;
    for (int r = 0; r < nroots; ++r) fns.push_back([r, conc, &checked] { if (conc) { tbb::task_arena a(conc); a.execute([r] { run_node(r); }); } else run_node(r); checked.wait(); });
    sim::event about_to_bind;
    if (focus) tree[(size_t)ext[0].first].before_child = &about_to_bind;
    for (auto& e : ext) fns.push_back([e, focus, &checked, &about_to_bind] { if (focus) { { tbb::task_group warm; warm.run([] {}); warm.wait(); } about_to_bind.wait(); } for (int k = 0; k < e.second; ++k) sim::upoint(); do_cancel(e.first); checked.wait(); });
    std::vector<int> ids;
    for (auto& f : fns) ids.push_back(sim::spawn(f, "user"));
    sim::wait_quiescent();
    for (auto& n : tree) if (n.invoked) SIM_CHECK(n.returned, "deadlock", "a parallel_for under a cancelled context never returned");
    // quiescence: every cancel and every bind call has returned
    for (int i = 0; i < nnodes; ++i) {
        Node& n = tree[(size_t)i];
        SIM_CHECK(n.cancel_true <= 1, "oracle:two-winners", "%d concurrent cancel_group_execution calls on context %d returned true", n.cancel_true, i);
        // expected: cancelled iff this context or a bound-chain ancestor had cancel called on it
        bool anc = false, self_chain = false;
        for (int c = i; c >= 0;) {
            Node& x = tree[(size_t)c];
            if (x.cancel_calls > 0) { self_chain = true; if (c != i) anc = true; }
            if (x.isolated) break;
            c = x.parent;
        }
        bool is = n.ctx->is_group_execution_cancelled();
        if (n.invoked || n.cancel_calls) {   // bound (its algorithm was started) or cancelled directly
            bool expected = n.invoked ? self_chain : n.cancel_calls > 0;
            if (expected) SIM_CHECK(is, "oracle:cancel-missed", "context %d is not cancelled although %s had cancel_group_execution called (all cancel and bind calls have returned)", i,
                                    n.cancel_calls ? "it" : "a context it is bound beneath");
            else SIM_CHECK(!is, "oracle:cancel-leaked", "context %d is cancelled although neither it nor any context it is bound beneath was cancelled", i);
        } else {
            SIM_CHECK(!is, "oracle:cancel-leaked", "context %d was never used nor cancelled, yet it reads cancelled", i);
        }
        if (n.cancel_calls > 0 && !anc) SIM_CHECK(n.cancel_true == 1, "oracle:no-winner", "%d cancel calls on the not-yet-cancelled context %d, %d returned true", n.cancel_calls, i, n.cancel_true);
    }
    checked.signal();
    for (int id : ids) sim::join(id);
    // the flag persists across unrelated work
    tbb::parallel_for(0, 8, [](int) { sim::upoint(); });
    for (int i = 0; i < nnodes; ++i) {
        Node& n = tree[(size_t)i];
        if (n.cancel_calls) SIM_CHECK(n.ctx->is_group_execution_cancelled(), "oracle:cancel-not-sticky", "context %d lost its cancelled state without reset()", i);
    }
    for (auto& n : tree) { sim::tso_unregister(n.ctx, sizeof(*n.ctx)); delete n.ctx; }
    // task_group resets its own context on completion
    { tbb::task_group tg; tg.run([] { sim::upoint(); }); tg.cancel(); tg.wait(); int ran = 0; tg.run([&] { ran = 1; }); tg.wait(); SIM_CHECK(ran == 1, "oracle:not-reset", "task_group did not reset its context after wait()"); }
    T = nullptr;
}

SIM_SCENARIO(scen_c04, "c04", "C04", 6000000, 30000) { c04_body(false); }
SIM_SCENARIO(scen_c04b, "c04b", "C04", 6000000, 30000) { c04_body(true); }

// c04c — life cycle over several rounds: heap contexts that stay bound while the contexts above them are reset and
// cancelled again, cancelled contexts carried into the next round without reset, and stack-allocated ("ephemeral")
// contexts that are created, bound and destroyed by the bodies while cancellations propagate through the thread lists.
namespace {
struct LNode {
    bool isolated = false, ephemeral = false;
    int parent = -1;
    std::vector<int> kids;
    int points = 0;
    tbb::task_group_context* ctx = nullptr;   // persistent: heap object for the whole run; ephemeral: the live stack object or null
    bool bound = false;                        // persistent: its algorithm was started at least once (it is bound for good)
    bool carried = false;                      // persistent: cancelled when the round began (not reset)
    // per round (ephemeral: per instance)
    std::vector<int> cancels;
    bool invoked = false, returned = false;
    int cancel_calls = 0, cancel_done = 0, cancel_true = 0;
};
std::vector<LNode>* L = nullptr;

void l_cancel(int target) {
    LNode& n = (*L)[(size_t)target];
    if (!n.ctx) return;                        // ephemeral context that is not alive
    n.cancel_calls++;
    sim::note("cancel ctx%d (%p) begin", target, (void*)n.ctx);
    bool r = n.ctx->cancel_group_execution();
    sim::note("cancel ctx%d -> %d", target, (int)r);
    n.cancel_done++; if (r) n.cancel_true++;
    sim::fault_fired("cancel");
}
// is a member of the bound chain of node i (i itself included) known to be cancelled?  done_only: only cancel calls that
// that have already returned TRUE (and carried state) count: the losing caller of two concurrent cancels returns at once,
// while the winner may still be propagating.
bool l_chain_cancelled(int i, bool done_only) {
    for (int c = i; c >= 0;) {
        LNode& x = (*L)[(size_t)c];
        if (x.carried || (done_only ? x.cancel_true : x.cancel_calls) > 0) return true;
        if (x.isolated) break;
        c = x.parent;
    }
    return false;
}
void l_run(int i);
void l_algo(int i, tbb::task_group_context& ctx) {
    LNode& n = (*L)[(size_t)i];
    int iters = std::max((int)n.kids.size(), std::max(1, (int)n.cancels.size()));
    tbb::parallel_for(tbb::blocked_range<int>(0, iters, 1), [i](const tbb::blocked_range<int>& r) {
        LNode& me = (*L)[(size_t)i];
        for (int j = r.begin(); j < r.end(); ++j) {
            for (int k = 0; k < me.points; ++k) sim::upoint();
            if (j < (int)me.cancels.size()) l_cancel(me.cancels[(size_t)j]);
            if (j < (int)me.kids.size()) l_run(me.kids[(size_t)j]);
        }
    }, tbb::simple_partitioner(), ctx);
}
void l_run(int i) {
    LNode& n = (*L)[(size_t)i];
    if (!n.ephemeral) { n.invoked = true; n.bound = true; l_algo(i, *n.ctx); n.returned = true; return; }
    // stack-allocated context: created, bound (beneath the context of the running body), used and destroyed here
    tbb::task_group_context local(n.isolated ? tbb::task_group_context::isolated : tbb::task_group_context::bound);
    n.cancel_calls = n.cancel_done = n.cancel_true = 0; n.carried = false;
    n.ctx = &local; n.invoked = true;
    sim::note("stack ctx%d (%p) created", i, (void*)&local);
    bool must = !n.isolated && l_chain_cancelled(n.parent, /*done_only=*/true);   // a cancel above had returned before this context existed
    l_algo(i, local);
    bool is = local.is_group_execution_cancelled();
    sim::note("stack ctx%d algorithm returned, cancelled=%d must=%d", i, (int)is, (int)must);
    if (must) SIM_CHECK(is, "oracle:cancel-missed", "stack context %d was created and bound after cancel_group_execution on a context above it had returned, yet it is not cancelled", i);
    if (!l_chain_cancelled(i, /*done_only=*/false)) SIM_CHECK(!is, "oracle:cancel-leaked", "stack context %d is cancelled although no cancel was requested on it or above it", i);
    SIM_CHECK(n.cancel_true <= 1, "oracle:two-winners", "%d cancel_group_execution calls on stack context %d returned true", n.cancel_true, i);
    n.ctx = nullptr; n.returned = true;
    sim::probe("ephemeral-context");
}
}  // namespace

SIM_SCENARIO(scen_c04c, "c04c", "C04", 8000000, 40000) {
    hx::Desc d;
    hx::draw_runtime_config(d);
    sim::g_cfg.tso = sim::draw_bool("tso");
    std::vector<LNode> tree; L = &tree;
    int nnodes = (int)sim::draw_range(3, 9, "nodes"), nroots = (int)sim::draw_range(1, 2, "roots"), rounds = (int)sim::draw_range(2, 3, "rounds");
    tree.resize((size_t)nnodes);
    std::string ts;
    for (int i = 0; i < nnodes; ++i) {
        LNode& n = tree[(size_t)i];
        n.isolated = i < nroots ? sim::draw_bool("iso_root") : sim::draw(6, "isolated") == 0;
        if (i >= nroots) { n.parent = (int)sim::draw((uint64_t)i, "parent"); tree[(size_t)n.parent].kids.push_back(i); n.ephemeral = tree[(size_t)n.parent].ephemeral || sim::draw(3, "ephemeral") == 0; }
        n.points = (int)sim::draw(6, "points");
        ts += hx::fmt(" %d%s%s<-%d", i, n.isolated ? "i" : "b", n.ephemeral ? "*" : "", n.parent);
    }
    // cancel plan per round: (target, by) with by == -1: external thread after a delay
    struct Cn { int target, by, delay; };
    std::vector<std::vector<Cn>> plan((size_t)rounds);
    std::string cs;
    for (int r = 0; r < rounds; ++r) {
        int nc = (int)sim::draw_range(1, 3, "ncancels");
        cs += hx::fmt(" | round %d:", r);
        for (int c = 0; c < nc; ++c) {
            Cn x; x.target = (int)sim::draw((uint64_t)nnodes, "target"); x.delay = 0;
            if (tree[(size_t)x.target].ephemeral) x.by = x.target;                              // a stack context is only cancelled from inside its own group
            else if (sim::draw(3, "external") == 0) { x.by = -1; x.delay = (int)sim::draw(200, "delay"); }
            else x.by = (int)sim::draw((uint64_t)nnodes, "by");
            plan[(size_t)r].push_back(x);
            cs += x.by < 0 ? hx::fmt(" ext->%d@%d", x.target, x.delay) : hx::fmt(" %d->%d", x.by, x.target);
        }
    }
    int conc = (int)sim::draw(4, "arena_conc");
    d.add(hx::fmt("life cycle, %d rounds, contexts (* = stack-allocated):%s cancels:%s arena_conc=%d tso=%d", rounds, ts.c_str(), cs.c_str(), conc, (int)sim::g_cfg.tso));
    d.publish();
    for (auto& n : tree) if (!n.ephemeral) { n.ctx = new tbb::task_group_context(n.isolated ? tbb::task_group_context::isolated : tbb::task_group_context::bound); sim::tso_register(n.ctx, sizeof(*n.ctx)); }
    std::vector<sim::event> go((size_t)rounds), checked((size_t)rounds);
    bool stop = false;
    // the threads that run the roots (and therefore bind the contexts) live for all rounds
    std::vector<int> ids;
    for (int r0 = 0; r0 < nroots; ++r0) ids.push_back(sim::spawn([&, r0] {
        std::unique_ptr<tbb::task_arena> a; if (conc) a.reset(new tbb::task_arena(conc));
        for (int r = 0; r < rounds && !stop; ++r) {
            go[(size_t)r].wait();
            if (a) a->execute([r0] { l_run(r0); }); else l_run(r0);
            checked[(size_t)r].wait();
        }
    }, "root"));
    for (int r = 0; r < rounds; ++r) {
        for (auto& n : tree) { n.cancels.clear(); n.invoked = n.returned = false; n.cancel_calls = n.cancel_done = n.cancel_true = 0; }
        std::vector<int> ext;
        for (auto& c : plan[(size_t)r]) {
            if (c.by >= 0) tree[(size_t)c.by].cancels.push_back(c.target);
            else ext.push_back(sim::spawn([&, c, r] { go[(size_t)r].wait(); for (int k = 0; k < c.delay; ++k) sim::upoint(); l_cancel(c.target); checked[(size_t)r].wait(); }, "canceller"));
        }
        go[(size_t)r].signal();
        sim::wait_quiescent();     // every algorithm, cancel and bind call of this round has returned
        for (int i = 0; i < nnodes; ++i) {
            LNode& n = tree[(size_t)i];
            if (n.invoked) SIM_CHECK(n.returned, "deadlock", "round %d: the algorithm of context %d never returned", r, i);
            if (n.ephemeral) continue;
            SIM_CHECK(n.cancel_true <= 1, "oracle:two-winners", "round %d: %d cancel_group_execution calls on context %d returned true", r, n.cancel_true, i);
            if (n.carried) SIM_CHECK(n.cancel_true == 0, "oracle:two-winners", "round %d: cancel_group_execution on context %d returned true although it was still cancelled from an earlier round (no reset)", r, i);
            bool is = n.ctx->is_group_execution_cancelled();
            bool own = n.carried || n.cancel_calls > 0;
            bool expected = n.bound ? l_chain_cancelled(i, false) : own;     // all calls have returned: invoked == done
            if (expected) SIM_CHECK(is, "oracle:cancel-missed", "round %d: context %d is not cancelled although %s (all cancel and bind calls have returned)", r, i,
                                    own ? "cancel_group_execution was called on it" : "a context it is bound beneath was cancelled");
            else SIM_CHECK(!is, "oracle:cancel-leaked", "round %d: context %d is cancelled although neither it nor any context it is bound beneath was cancelled", r, i);
            bool anc = !n.isolated && n.bound && n.parent >= 0 && l_chain_cancelled(n.parent, false);
            if (!n.carried && n.cancel_calls > 0 && !anc) SIM_CHECK(n.cancel_true == 1, "oracle:no-winner", "round %d: %d cancel calls on the not-yet-cancelled context %d, %d returned true", r, n.cancel_calls, i, n.cancel_true);
        }
        // between rounds: reset cancelled contexts (legal: nothing runs), but carry some into the next round still cancelled;
        // whatever is bound beneath a carried context is carried too
        std::string rs;
        for (int i = 0; i < nnodes; ++i) {
            LNode& n = tree[(size_t)i];
            if (n.ephemeral) continue;
            bool is = n.ctx->is_group_execution_cancelled();
            bool parent_kept = n.bound && !n.isolated && n.parent >= 0 && tree[(size_t)n.parent].carried;   // parents come first (smaller index) and already hold next round's value
            bool keep = is && (parent_kept || sim::draw(4, "keep_cancelled") == 0);
            if (is && !keep) { n.ctx->reset(); rs += hx::fmt(" reset(%d)", i); SIM_CHECK(!n.ctx->is_group_execution_cancelled(), "oracle:not-reset", "context %d still reads cancelled after reset()", i); }
            n.carried = keep;
        }
        if (r + 1 == rounds) stop = true;
        checked[(size_t)r].signal();
        for (int id : ext) sim::join(id);
        if (!rs.empty()) sim::probe("context-reset-between-rounds");
    }
    for (int id : ids) sim::join(id);
    for (auto& n : tree) if (!n.ephemeral) { sim::tso_unregister(n.ctx, sizeof(*n.ctx)); delete n.ctx; }
    L = nullptr;
}

// c04d — contexts whose binding thread has left: a thread binds heap contexts M1 (and M2 beneath it) under `src` by
// running nested one-chunk loops, then exits, so the list those contexts are registered in has no owner any more.
// Order "descendant first": another thread binds a fresh context K beneath the lowest of them, and while K's body runs
// somebody cancels `src` (or M1).  Order "cancel first": the cancel call is made while nothing beneath the orphaned
// contexts sits in a live thread's list, K is bound afterwards.  When the cancel call has returned (and K is bound), every
// context bound beneath the target - K, and the intermediate ones whose thread is gone - is cancelled, tasks of their
// groups see it, and nothing above the target is.
SIM_SCENARIO(scen_c04d, "c04d", "C04", 4000000, 20000) {
    hx::Desc d;
    static const int Ps[] = {2, 3, 4};
    sim::g_cfg.P = sim::draw_of(Ps, "P");
    bool deep = sim::draw_bool("deep"), sibling = sim::draw_bool("sibling"), cancel_mid = deep && sim::draw(3, "cancel_m1") == 0;
    bool cancel_first = sim::draw(4, "order") == 0;
    int who = cancel_first ? 2 : (int)sim::draw(2, "canceller");        // 0: the body of K cancels; 1: a foreign thread, while K's body runs; 2: the main thread, before K exists
    int pts = (int)sim::draw(12, "points");
    const char* tagtxt = cancel_first ? " [no live-listed descendant at cancel time]" : "";
    d.add(hx::fmt("orphaned context list: P=%d chain src>M1%s>K, binder thread exits before K is bound; cancel(%s) by %s; sibling task in M1's group=%d points=%d%s", sim::g_cfg.P,
                  deep ? ">M2" : "", cancel_mid ? "M1" : "src", who == 0 ? "K's body" : who == 1 ? "a foreign thread while K's body runs" : "the main thread before K is bound", (int)sibling, pts, tagtxt));
    d.publish();
    std::unique_ptr<tbb::task_group_context> src(new tbb::task_group_context), m1(new tbb::task_group_context), m2(new tbb::task_group_context);
    int binder = sim::spawn([&] {
        tbb::parallel_for(0, 1, [&](int) {
            tbb::parallel_for(0, 1, [&](int) {
                if (deep) tbb::parallel_for(0, 1, [&](int) { sim::upoint(); }, *m2);      // binds M2 to M1
                sim::upoint();
            }, *m1);                                                                          // binds M1 to src
        }, *src);
    }, "binder");
    sim::join(binder);
    for (int i = 0; i < pts; ++i) sim::upoint();
    tbb::task_group_context& lowest = deep ? *m2 : *m1;
    tbb::task_group_context& target = cancel_mid ? *m1 : *src;
    bool cancel_won = false, k_cancelled = false, k_ran = false, sib_saw = false;
    sim::event sib_started, k_started, cancel_done;
    int sib = -1;
    if (sibling) sib = sim::spawn([&] {
        tbb::parallel_for(0, 1, [&](int) { sib_started.signal(); cancel_done.wait(); sib_saw = tbb::is_current_task_group_canceling(); }, *m1);
    }, "sibling");
    if (sibling) sib_started.wait();
    int foreign = -1;
    if (who == 1) foreign = sim::spawn([&] { k_started.wait(); cancel_won = target.cancel_group_execution(); cancel_done.signal(); }, "canceller");
    if (who == 2) { cancel_won = target.cancel_group_execution(); cancel_done.signal(); }
    tbb::parallel_for(0, 1, [&](int) {
        tbb::task_group_context k;
        tbb::parallel_for(0, 1, [&](int) {
            k_ran = true; k_started.signal();
            if (who == 0) { cancel_won = target.cancel_group_execution(); cancel_done.signal(); }
            else cancel_done.wait();
        }, k);                                                                                // binds K to the lowest intermediate context
        k_cancelled = k.is_group_execution_cancelled();
    }, lowest);
    if (foreign >= 0) sim::join(foreign);
    if (sib >= 0) sim::join(sib);
    SIM_CHECK(cancel_done.is_set(), "tool:harness", "the cancel call was not made");
    SIM_CHECK(cancel_won, "oracle:cancel-result", "the only cancel call on the target did not return true");
    SIM_CHECK(target.is_group_execution_cancelled(), "oracle:cancel-missed", "the cancelled context itself is not cancelled");
    SIM_CHECK(m1->is_group_execution_cancelled(), "oracle:cancel-missed", "M1 (bound beneath src by a thread that has exited) is not cancelled after cancel(%s) returned%s", cancel_mid ? "M1" : "src", tagtxt);
    if (deep) SIM_CHECK(m2->is_group_execution_cancelled(), "oracle:cancel-missed", "M2 (bound beneath M1 by a thread that has exited) is not cancelled after the cancel call returned%s", tagtxt);
    if (cancel_first) SIM_CHECK(!k_ran, "oracle:cancel-missed", "work of a context bound beneath the cancelled one after the cancel call had returned was carried out%s", tagtxt);
    else SIM_CHECK(k_cancelled, "oracle:cancel-missed", "K, bound beneath the cancelled context after its intermediate contexts' thread had exited, is not cancelled although the cancel call has returned");
    if (cancel_mid) SIM_CHECK(!src->is_group_execution_cancelled(), "oracle:cancel-spurious", "src is cancelled although only M1 beneath it was");
    if (sibling) SIM_CHECK(sib_saw, "oracle:cancel-missed", "a task of M1's group, running when the cancel call was made, does not see the cancellation after the call returned%s", tagtxt);
}
