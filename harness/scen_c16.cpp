// C16 — arenas: concurrency bound, unique slot indices, reserved slots for non-workers, balanced observer
// calls, isolation, global_control worker budget.
#include "rt_common.h"
#include "oneapi/tbb/parallel_for.h"
#include "oneapi/tbb/task_scheduler_observer.h"

namespace {

struct ArenaInfo { int maxc, reserved; bool enq_used = false; tbb::task_arena* a = nullptr; std::map<int, int> inside; /* fiber -> slot index */ int bodies_by_fiber[64] = {0}; };
struct World {
    std::vector<ArenaInfo> ar;
    int limit = 0;                       // global_control max_allowed_parallelism (0: none)
    bool any_enqueue = false;
    std::map<int, int> workers_in_bodies;   // worker fiber -> nesting count
    std::map<int, std::vector<int>> iso_stack;   // fiber -> active isolation regions
    int next_region = 1;
};
World* W = nullptr;

struct Obs : tbb::task_scheduler_observer {
    int arena_id;
    std::map<int, int> depth;   // fiber -> entries - exits
    int entries = 0, exits = 0;
    std::map<int, int> inside;  // fiber -> current_thread_index() between its entry and its exit callback (outermost level)
    Obs(tbb::task_arena& a, int id) : tbb::task_scheduler_observer(a), arena_id(id) {}
    void on_scheduler_entry(bool is_worker) override {
        int f = sim::self();
        SIM_CHECK(is_worker == !sim::is_scenario_fiber(f), "oracle:observer", "on_scheduler_entry(is_worker=%d) on fiber %d which is %sa worker", (int)is_worker, f, sim::is_scenario_fiber(f) ? "not " : "");
        if (depth[f]++ == 0) {
            // from the entry callback to the end of the exit callback the thread is inside the arena: it owns a slot
            int idx = tbb::this_task_arena::current_thread_index();
            const ArenaInfo& ai = W->ar[(size_t)arena_id];
            for (auto& kv : inside) SIM_CHECK(kv.second != idx, "oracle:slot-index", "observer of arena %d: fiber %d enters with current_thread_index %d while fiber %d is still between its entry and exit callbacks with the same index", arena_id, f, idx, kv.first);
            inside[f] = idx;
            int bound = ai.maxc + (ai.maxc == 1 ? 1 : 0);
            SIM_CHECK((int)inside.size() <= bound, "oracle:arena-concurrency", "observer of arena %d: %zu threads are between their entry and exit callbacks at once; max_concurrency=%d", arena_id, inside.size(), ai.maxc);
            for (int i = 0; i < 2; ++i) sim::upoint();
        }
        entries++;
    }
    void on_scheduler_exit(bool) override {
        int f = sim::self();
        SIM_CHECK(depth[f] > 0, "oracle:observer", "on_scheduler_exit on fiber %d (arena %d) without a matching on_scheduler_entry on that fiber", f, arena_id);
        if (--depth[f] == 0) {
            for (int i = 0; i < 3; ++i) sim::upoint();      // user code of some duration inside the exit callback
            int idx = tbb::this_task_arena::current_thread_index();
            auto it = inside.find(f);
            if (it != inside.end()) {
                SIM_CHECK(it->second == idx, "oracle:slot-index", "observer of arena %d: current_thread_index() of fiber %d is %d in its exit callback, it was %d at entry", arena_id, f, idx, it->second);
                for (auto& kv : inside) if (kv.first != f) SIM_CHECK(kv.second != idx, "oracle:slot-index", "observer of arena %d: fibers %d and %d are inside with the same current_thread_index %d (one of them in its exit callback)", arena_id, f, kv.first, idx);
                inside.erase(it);
            }
        }
        exits++;
    }
};

// a unit of work of arena `aid` (region: isolation scope it was spawned in, 0 = none)
void unit(int aid, int region, int points) {
    World& w = *W;
    ArenaInfo& ai = w.ar[(size_t)aid];
    int f = sim::self();
    bool worker = !sim::is_scenario_fiber(f);
    // isolation: a fiber that waits inside an isolate scope runs only work of that scope
    auto& st = w.iso_stack[f];
    if (!st.empty()) SIM_CHECK(region == st.back(), "oracle:isolation", "fiber %d waiting inside isolation scope %d executed a task of scope %d", f, st.back(), region);
    int idx = tbb::this_task_arena::current_thread_index();
    int bound = ai.maxc + (ai.maxc == 1 ? 1 : 0);   // a one-thread arena may get one extra (mandatory) worker for enqueued work
    bool first_level = ai.inside.find(f) == ai.inside.end();
    if (first_level) {
        SIM_CHECK(idx >= 0 && idx < bound, "oracle:slot-index", "current_thread_index()==%d in arena %d with max_concurrency %d", idx, aid, ai.maxc);
        for (auto& kv : ai.inside) SIM_CHECK(kv.second != idx, "oracle:slot-index", "fibers %d and %d are inside arena %d with the same current_thread_index %d", kv.first, f, aid, idx);
        if (idx < ai.reserved) SIM_CHECK(!worker, "oracle:reserved-slot", "worker fiber %d occupies reserved slot %d of arena %d (reserved=%d)", f, idx, aid, ai.reserved);
        ai.inside[f] = idx;
        int nworkers = 0; for (auto& kv : ai.inside) if (!sim::is_scenario_fiber(kv.first)) ++nworkers;
        // one-thread arena: one extra *worker* is legitimate while enqueued work exists (execute() on a saturated
        // arena enqueues its delegate internally, so a worker may appear without a user-level enqueue)
        int allowed = ai.maxc + ((ai.maxc == 1 && nworkers >= 1) ? 1 : 0);
        if ((int)ai.inside.size() > allowed) {
            sim::fail("oracle:arena-concurrency", "%zu threads (%d workers, %zu application threads) execute inside arena %d at once; max_concurrency=%d reserved=%d enqueue_used=%d",
                      ai.inside.size(), nworkers, ai.inside.size() - (size_t)nworkers, aid, ai.maxc, ai.reserved, (int)ai.enq_used);
        }
        if (ai.inside.size() >= 2) sim::mark_window();
    } else {
        SIM_CHECK(ai.inside[f] == idx, "oracle:slot-index", "current_thread_index() of fiber %d changed from %d to %d inside arena %d", f, ai.inside[f], idx, aid);
    }
    if (worker) {
        if (w.workers_in_bodies[f]++ == 0 && w.limit) {
            int nworkers = 0; for (auto& kv : w.workers_in_bodies) if (kv.second > 0) ++nworkers;
            // L-1 == 0: one mandatory worker is legitimate while enqueued work exists; task_arena::execute on a
            // saturated arena enqueues its delegate internally, so the allowance is granted whenever L-1 == 0
            int allowed = w.limit - 1; if (allowed == 0) allowed = 1;
            SIM_CHECK(nworkers <= allowed, "oracle:worker-budget", "%d worker threads execute user work at once under max_allowed_parallelism=%d", nworkers, w.limit);
        }
    }
    ai.bodies_by_fiber[f % 64]++;
    for (int i = 0; i < points; ++i) sim::upoint();
    ai.bodies_by_fiber[f % 64]--;
    if (worker) w.workers_in_bodies[f]--;
    if (first_level) ai.inside.erase(f);
}

struct Act { int kind; int arena; int n; int points; bool isolate; };   // kind 0 execute(parallel_for), 1 enqueue, 2 execute(task_group + isolate)

}  // namespace

SIM_SCENARIO(scen_c16, "c16", "C16", 6000000, 30000) {
    hx::Desc d;
    hx::draw_runtime_config(d, 8, /*allow_warm=*/false);   // the worker budget clause is about work that starts under the limit
    World world; W = &world;
    int narenas = (int)sim::draw_range(1, 3, "narenas");
    world.ar.resize((size_t)narenas);
    for (int i = 0; i < narenas; ++i) {
        ArenaInfo& ai = world.ar[(size_t)i];
        ai.maxc = (int)sim::draw_range(1, 4, "maxc");
        ai.reserved = (int)sim::draw_range(0, std::min(2, std::max(1, ai.maxc - 1)), "reserved");
        int prio = (int)sim::draw(3, "prio");
        static const tbb::task_arena::priority pr[] = {tbb::task_arena::priority::low, tbb::task_arena::priority::normal, tbb::task_arena::priority::high};
        ai.a = new tbb::task_arena(ai.maxc, (unsigned)ai.reserved, pr[prio]);
        d.add(hx::fmt("arena%d(max=%d,reserved=%d,prio=%d)", i, ai.maxc, ai.reserved, prio));
    }
    world.limit = sim::draw(3, "use_limit") == 0 ? (int)sim::draw_range(1, 4, "limit") : 0;
    int nusers = (int)sim::draw_range(1, 4, "users");
    std::vector<std::vector<Act>> plan((size_t)nusers);
    for (int u = 0; u < nusers; ++u) {
        int na = (int)sim::draw_range(1, 3, "nacts");
        std::string s = hx::fmt("U%d:", u);
        for (int k = 0; k < na; ++k) {
            Act a; a.kind = (int)sim::draw(3, "kind"); a.arena = (int)sim::draw((uint64_t)narenas, "arena"); a.n = (int)sim::draw_range(1, 10, "n");
            static const int ptsv[] = {0, 3, 15, 60}; a.points = sim::draw_of(ptsv, "points"); a.isolate = sim::draw_bool("isolate");
            if (a.kind == 1) { world.ar[(size_t)a.arena].enq_used = true; world.any_enqueue = true; }
            plan[(size_t)u].push_back(a);
            s += hx::fmt(" %s(a%d,n=%d,p=%d%s)", a.kind == 0 ? "execute-pfor" : a.kind == 1 ? "enqueue" : "execute-tg", a.arena, a.n, a.points, a.isolate && a.kind == 2 ? ",isolate" : "");
        }
        d.add(s);
    }
    d.add(hx::fmt("max_allowed_parallelism=%d", world.limit));
    d.publish();
    // allotment oracle (hook H7): after every allotment update of the market
    int allot_updates = 0;
    sim::set_allotment_observer([&](int soft, int mand, int total, int n, const int* level, const int* minw, const int* maxw, const int* allot) {
        ++allot_updates;
        int limit = (soft == 0 && mand > 0) ? 1 : soft;
        int want = std::min(total, limit), sum = 0;
        for (int i = 0; i < n; ++i) {
            sum += allot[i];
            SIM_CHECK(allot[i] >= 0 && allot[i] <= maxw[i], "oracle:allotment", "an arena was granted %d workers but requested only %d", allot[i], maxw[i]);
        }
        hx::check_mandatory_allotment(soft, mand, total, n, level, minw, maxw, allot);
        SIM_CHECK(sum <= want, "oracle:allotment", "%d workers granted in total, min(total demand %d, limit %d) is %d", sum, total, limit, want);
        if (sum != want)
            sim::fail("oracle:allotment-sum", "workers granted to arenas sum to %d, min(total demand %d, limit %d) is %d (soft limit %d, mandatory requests %d, %d arenas)", sum, total, limit, want, soft, mand, n);
        // priority: nobody at a lower priority level (higher index) holds a worker while a higher level is short (soft limit > 0)
        if (soft > 0) for (int i = 0; i < n; ++i) for (int j = 0; j < n; ++j)
            if (level[i] < level[j] && allot[i] < maxw[i] && allot[j] > 0)
                sim::fail("oracle:allotment-priority", "an arena of priority level %d holds %d worker(s) while an arena of higher priority (level %d) has only %d of %d requested", level[j], allot[j], level[i], allot[i], maxw[i]);
        (void)minw;
    });
    {
    std::unique_ptr<tbb::global_control> gc;
    if (world.limit) gc.reset(new tbb::global_control(tbb::global_control::max_allowed_parallelism, (size_t)world.limit));
    std::vector<std::unique_ptr<Obs>> obs;
    for (int i = 0; i < narenas; ++i) { obs.emplace_back(new Obs(*world.ar[(size_t)i].a, i)); obs.back()->observe(true); }
    std::vector<sim::event*> pend;
    std::vector<std::function<void()>> fns;
    for (int u = 0; u < nusers; ++u) fns.push_back([&, u] {
        for (const Act& a : plan[(size_t)u]) {
            tbb::task_arena& ar = *world.ar[(size_t)a.arena].a;
            int aid = a.arena;
            if (a.kind == 0) {
                ar.execute([&] { tbb::parallel_for(0, a.n, [&](int) { unit(aid, 0, a.points); }, tbb::simple_partitioner()); });
            } else if (a.kind == 1) {
                auto* ev = new sim::event; pend.push_back(ev);
                int pts = a.points;
                // the enqueued task spawns nested work of no isolation scope: an isolated waiter must not pick it up
                ar.enqueue([aid, pts, ev] { unit(aid, 0, pts); tbb::parallel_for(0, 6, [aid, pts](int) { unit(aid, 0, pts / 2); }, tbb::simple_partitioner()); ev->signal(); });
            } else {
                ar.execute([&] {
                    tbb::task_group outer;
                    for (int i = 0; i < a.n; ++i) outer.run([&] { unit(aid, 0, a.points); });
                    if (a.isolate) {
                        int region = world.next_region++;
                        int f = sim::self();
                        tbb::this_task_arena::isolate([&] {
                            world.iso_stack[f].push_back(region);
                            // re-entering the arena the thread is already in must not disturb the isolation scope
                            if (a.n % 2) ar.execute([] { for (int i = 0; i < 2; ++i) sim::upoint(); });
                            tbb::task_group inner;
                            for (int i = 0; i < 5; ++i) inner.run([&, region] { unit(aid, region, a.points); });
                            inner.wait();
                            world.iso_stack[f].pop_back();
                        });
                    }
                    outer.wait();
                });
            }
        }
    });
    hx::run_fibers(fns);
    for (auto* ev : pend) ev->wait();     // enqueued work eventually runs (submitter never calls a TBB wait)
    for (auto& o : obs) o->observe(false);
    for (auto& o : obs) {
        SIM_CHECK(o->exits <= o->entries, "oracle:observer", "arena %d: %d exit calls for %d entry calls", o->arena_id, o->exits, o->entries);
        for (auto& kv : o->depth) if (sim::is_scenario_fiber(kv.first)) SIM_CHECK(kv.second == 0, "oracle:observer", "arena %d: fiber %d got %d more entry than exit calls although it has left the arena", o->arena_id, kv.first, kv.second);
    }
    }
    sim::set_allotment_observer(nullptr);
    if (allot_updates) sim::probe("allotment-updates-observed");
    for (auto& ai : world.ar) delete ai.a;
    W = nullptr;
}

// c16b — isolation against a stream of enqueued work in the same arena: an application thread repeatedly waits
// inside this_task_arena::isolate while another thread keeps enqueuing tasks that spawn nested (non-isolated) work.
SIM_SCENARIO(scen_c16b, "c16b", "C16", 6000000, 30000) {
    hx::Desc d;
    hx::draw_runtime_config(d, 8);
    World world; W = &world;
    world.ar.resize(1);
    ArenaInfo& ai = world.ar[0];
    ai.maxc = (int)sim::draw_range(2, 4, "maxc"); ai.reserved = (int)sim::draw(2, "reserved"); ai.enq_used = true; world.any_enqueue = true;
    ai.a = new tbb::task_arena(ai.maxc, (unsigned)ai.reserved);
    int rounds = (int)sim::draw_range(1, 4, "rounds"), ninner = (int)sim::draw_range(2, 6, "inner"), nenq = (int)sim::draw_range(1, 6, "enqueues");
    static const int ptsv[] = {2, 8, 30};
    int pts = sim::draw_of(ptsv, "points"), gap = (int)sim::draw(40, "gap"), nested = (int)sim::draw_range(2, 8, "nested");
    bool reenter = sim::draw_bool("reenter_same_arena");
    d.add(hx::fmt("isolation-vs-enqueue arena(%d,%d) rounds=%d inner=%d enqueues=%d nested=%d points=%d gap=%d reenter=%d", ai.maxc, ai.reserved, rounds, ninner, nenq, nested, pts, gap, (int)reenter));
    d.publish();
    std::vector<sim::event*> pend;
    std::vector<std::function<void()>> fns;
    fns.push_back([&] {
        ai.a->execute([&] {
            int f = sim::self();
            for (int r = 0; r < rounds; ++r) {
                int region = world.next_region++;
                tbb::this_task_arena::isolate([&] {
                    world.iso_stack[f].push_back(region);
                    if (reenter) ai.a->execute([] { for (int i = 0; i < 2; ++i) sim::upoint(); });     // same arena: the scope's tag must survive
                    tbb::task_group inner;
                    for (int i = 0; i < ninner; ++i) inner.run([&, region] { unit(0, region, pts); });
                    inner.wait();
                    world.iso_stack[f].pop_back();
                });
            }
        });
    });
    fns.push_back([&] {
        for (int k = 0; k < nenq; ++k) {
            for (int i = 0; i < gap; ++i) sim::upoint();
            auto* ev = new sim::event; pend.push_back(ev);
            ai.a->enqueue([&, ev] { unit(0, 0, pts / 2); tbb::parallel_for(0, nested, [&](int) { unit(0, 0, pts / 2); }, tbb::simple_partitioner()); ev->signal(); });
        }
    });
    hx::run_fibers(fns);
    for (auto* ev : pend) ev->wait();
    delete ai.a;
    W = nullptr;
}

// c16c — sequences of global_control creation / destruction (any order of destruction, nested and overlapping
// limits) between phases of parallel work.  The limit changes while every thread is idle (the clause is about work
// that starts while a limit is in force), each phase then starts work in 1-2 arenas from 1-2 application threads.
// Oracle: worker threads in user bodies <= L-1 for the active limit L = min over the live controls (mandatory worker
// allowed when L-1 == 0), and through hook H7 the market works with exactly that limit: soft limit == L-1, resp. P-1
// when no control is alive; plus the allotment clauses of c16.
SIM_SCENARIO(scen_c16c, "c16c", "C16", 8000000, 40000) {
    hx::Desc d;
    hx::draw_runtime_config(d, 8, /*allow_warm=*/false);
    World world; W = &world;
    int narenas = (int)sim::draw_range(1, 2, "narenas");
    world.ar.resize((size_t)narenas);
    for (int i = 0; i < narenas; ++i) {
        ArenaInfo& ai = world.ar[(size_t)i];
        ai.maxc = (int)sim::draw_range(2, 6, "maxc"); ai.reserved = (int)sim::draw(2, "reserved");
        ai.a = new tbb::task_arena(ai.maxc, (unsigned)ai.reserved);
        d.add(hx::fmt("arena%d(max=%d,reserved=%d)", i, ai.maxc, ai.reserved));
    }
    int phases = (int)sim::draw_range(2, 5, "phases");
    struct Ph { int action; int value; int users; int n[2]; int arena[2]; bool enq[2]; };    // action 0 none, 1 create(value), 2 destroy(value = index among live)
    std::vector<Ph> plan((size_t)phases);
    int live = 0; std::string ps;
    for (auto& p : plan) {
        p.action = live == 0 ? (int)sim::draw(2, "action") : (int)sim::draw(3, "action");
        if (p.action == 1) { p.value = (int)sim::draw_range(1, 5, "limit"); ++live; ps += hx::fmt(" | create(%d)", p.value); }
        else if (p.action == 2) { p.value = (int)sim::draw((uint64_t)live, "which"); --live; ps += hx::fmt(" | destroy(#%d)", p.value); }
        else ps += " | keep";
        p.users = (int)sim::draw_range(1, 2, "users");
        for (int u = 0; u < p.users; ++u) { p.n[u] = (int)sim::draw_range(2, 12, "n"); p.arena[u] = (int)sim::draw((uint64_t)narenas, "arena"); p.enq[u] = sim::draw(4, "enqueue") == 0;
            ps += hx::fmt(" U%d:%s(a%d,n=%d)", u, p.enq[u] ? "enqueue" : "execute-pfor", p.arena[u], p.n[u]); if (p.enq[u]) { world.ar[(size_t)p.arena[u]].enq_used = true; world.any_enqueue = true; } }
    }
    static const int ptsv[] = {3, 15, 60};
    int pts = sim::draw_of(ptsv, "points");
    d.add(hx::fmt("global_control sequence:%s; points=%d", ps.c_str(), pts));
    d.publish();
    int expected_soft = -1;      // -1: a control is being created / destroyed right now (the market is updated inside that call)
    int allot_updates = 0, soft_checks = 0;
    sim::set_allotment_observer([&](int soft, int mand, int total, int n, const int* level, const int* minw, const int* maxw, const int* allot) {
        ++allot_updates;
        if (expected_soft >= 0) {
            ++soft_checks;
            SIM_CHECK(soft == expected_soft, "oracle:worker-limit", "the worker allotment uses soft limit %d, the live global_control objects (min of their values, else the machine size %d) give %d", soft, sim::g_cfg.P, expected_soft);
        }
        hx::check_mandatory_allotment(soft, mand, total, n, level, minw, maxw, allot);
        int limit = (soft == 0 && mand > 0) ? 1 : soft, want = std::min(total, limit), sum = 0;
        for (int i = 0; i < n; ++i) { sum += allot[i]; SIM_CHECK(allot[i] >= 0 && allot[i] <= maxw[i], "oracle:allotment", "an arena was granted %d workers but requested only %d", allot[i], maxw[i]); }
        SIM_CHECK(sum <= want, "oracle:allotment", "%d workers granted in total, min(total demand %d, limit %d) is %d", sum, total, limit, want);
        if (sum != want)
            sim::fail("oracle:allotment-sum", "workers granted to arenas sum to %d, min(total demand %d, limit %d) is %d (soft limit %d, mandatory requests %d, %d arenas)", sum, total, limit, want, soft, mand, n);
    });
    {
    std::vector<std::pair<int, std::unique_ptr<tbb::global_control>>> gcs;   // (value, control) in creation order
    std::vector<sim::event*> pend;
    for (int ph = 0; ph < phases; ++ph) {
        const Ph& p = plan[(size_t)ph];
        sim::wait_quiescent();      // every thread of the previous phase is idle (workers asleep or gone)
        expected_soft = -1;
        if (p.action == 1) gcs.emplace_back(p.value, std::unique_ptr<tbb::global_control>(new tbb::global_control(tbb::global_control::max_allowed_parallelism, (size_t)p.value)));
        else if (p.action == 2) gcs.erase(gcs.begin() + p.value);
        int L = 0; for (auto& g : gcs) L = L ? std::min(L, g.first) : g.first;
        world.limit = L;                                    // 0: no control alive, the worker-budget clause does not apply
        expected_soft = (L ? L : std::max(1, sim::g_cfg.P)) - 1;
        SIM_CHECK((int)tbb::global_control::active_value(tbb::global_control::max_allowed_parallelism) == (L ? L : std::max(1, sim::g_cfg.P)) || L > sim::g_cfg.P, "oracle:worker-limit",
                  "global_control::active_value == %zu, the live controls give %d", tbb::global_control::active_value(tbb::global_control::max_allowed_parallelism), L ? L : sim::g_cfg.P);
        std::vector<std::function<void()>> fns;
        for (int u = 0; u < p.users; ++u) fns.push_back([&, u] {
            tbb::task_arena& ar = *world.ar[(size_t)p.arena[u]].a; int aid = p.arena[u], n = p.n[u];
            if (p.enq[u]) { auto* ev = new sim::event; pend.push_back(ev); ar.enqueue([aid, n, pts, ev] { tbb::parallel_for(0, n, [aid, pts](int) { unit(aid, 0, pts); }, tbb::simple_partitioner()); ev->signal(); }); ev->wait(); }
            else ar.execute([&] { tbb::parallel_for(0, n, [&](int) { unit(aid, 0, pts); }, tbb::simple_partitioner()); });
        });
        hx::run_fibers(fns);
    }
    sim::wait_quiescent();
    expected_soft = -1;
    }
    sim::set_allotment_observer(nullptr);
    if (soft_checks) sim::probe("soft-limit-checked");
    (void)allot_updates;
    for (auto& ai : world.ar) delete ai.a;
    W = nullptr;
}
