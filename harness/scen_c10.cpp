// C10 — concurrent_hash_map: linearizable per key, per-element reader/writer locks, element not
// destroyed while an accessor points to it, nothing lost/duplicated/resurrected during lazy rehashing.
#include "common.h"
#include "lincheck.h"
#include "oneapi/tbb/concurrent_hash_map.h"

namespace {

int g_live_vals = 0;
struct Val {
    uint64_t tag = 0;
    mutable int writers = 0, readers = 0;
    Val() { ++g_live_vals; }
    explicit Val(uint64_t t) : tag(t) { ++g_live_vals; }
    Val(const Val& o) : tag(o.tag) { ++g_live_vals; }
    Val& operator=(const Val& o) { tag = o.tag; return *this; }
    ~Val() {
        if (sim::g_active) SIM_CHECK(writers == 0 && readers == 0, "oracle:destroyed-under-accessor", "mapped value (tag %llu) destroyed while %d writer / %d reader accessor(s) point to it",
                                     (unsigned long long)tag, writers, readers);
        --g_live_vals; tag = 0xdeadULL;
    }
};

int g_hash_kind = 0, g_shift = 0;
struct HC {
    size_t hash(int k) const {
        switch (g_hash_kind) {
        case 0: return (size_t)k;                       // identity
        case 1: return 7;                               // constant: one bucket chain
        case 2: return (size_t)k << g_shift;            // low bits collide: parent/child buckets of a split
        default: return (size_t)k * 0x9e3779b97f4a7c15ull;
        }
    }
    bool equal(int a, int b) const { return a == b; }
};
using Map = tbb::concurrent_hash_map<int, Val, HC>;

enum OK { INS, INS_ACC, INS_CACC, EMPL, FIND_ACC, FIND_CACC, COUNT, ERASE, ERASE_ACC, BULK, NOPS };
const char* const kOp[] = {"insert", "insert(acc)", "insert(cacc)", "emplace", "find(acc)", "find(cacc)", "count", "erase", "erase(acc)", "bulk-insert"};
struct MOp { OK k; bool ok; uint64_t tag; };   // tag: written (successful insert) or observed (find / failed insert with accessor)
struct KModel {
    bool present = false; uint64_t tag = 0;
    bool apply(const MOp& o) {
        switch (o.k) {
        case INS: case EMPL:
            if (o.ok) { if (present) return false; present = true; tag = o.tag; return true; }
            return present;
        case INS_ACC: case INS_CACC:
            if (o.ok) { if (present) return false; present = true; tag = o.tag; return true; }
            return present && tag == o.tag;            // accessor points to the existing element
        case FIND_ACC: case FIND_CACC:
            return o.ok ? (present && tag == o.tag) : !present;
        case COUNT: return o.ok == present;
        case ERASE:
            if (o.ok) { if (!present) return false; present = false; return true; }
            return !present;
        case ERASE_ACC:   // erase through an accessor: true = this call removed exactly that element; false = somebody else already had
            if (o.ok) { if (!present || tag != o.tag) return false; present = false; return true; }
            return !present || tag != o.tag;     // false is truthful only if that element is no longer in the map
        default: return false;
        }
    }
    uint64_t hash() const { return present ? tag * 31 + 1 : 0; }
};
using Ev = lin::Event<MOp>;

struct Plan { OK k; int key; int hold; };

void hold_element(const Val& v, bool write, int points, int key) {
    if (write) {
        SIM_CHECK(v.writers == 0 && v.readers == 0, "oracle:element-lock", "accessor to key %d obtained while %d writer / %d reader accessor(s) exist", key, v.writers, v.readers);
        v.writers++;
    } else {
        SIM_CHECK(v.writers == 0, "oracle:element-lock", "const_accessor to key %d obtained while a writer accessor exists", key);
        v.readers++;
    }
    for (int i = 0; i < points; ++i) {
        sim::upoint();
        SIM_CHECK(v.tag != 0xdeadULL, "oracle:destroyed-under-accessor", "element of key %d destroyed while an accessor points to it", key);
        if (write) SIM_CHECK(v.writers == 1 && v.readers == 0, "oracle:element-lock", "writer accessor to key %d not exclusive", key);
        else SIM_CHECK(v.writers == 0, "oracle:element-lock", "reader accessor to key %d overlaps a writer", key);
    }
    if (write) v.writers--; else v.readers--;
}

std::string hist_text(const std::vector<Ev>& h) {
    std::string s;
    for (size_t i = 0; i < h.size(); ++i)
        s += hx::fmt(" #%zu[%llu,%llu]%s=%d/t%llu", i, (unsigned long long)h[i].inv, (unsigned long long)h[i].res, kOp[h[i].op.k], (int)h[i].op.ok, (unsigned long long)h[i].op.tag);
    return s;
}

}  // namespace

SIM_SCENARIO(scen_c10, "c10", "C10", 3000000, 8000) {
    hx::Desc d;
    g_live_vals = 0;
    int nthreads = (int)sim::draw_range(2, 4, "threads");
    // theme "erase in a chain" (1 run in 5): every key is present at the start and shares its bucket chain with the others
    // (constant or low-bit-colliding hash), the programs are mostly erases: removal of non-head nodes, several threads
    // unlinking neighbours / the same node, bucket-lock upgrades that are contended
    int theme = (int)sim::draw(6, "theme");           // 0: erase in a chain, 1: erase while the table grows, else: uniform mix
    bool erase_theme = theme == 0;
    // theme "erase while the table grows" (1 run in 6): tiny table, every key present at the start, one thread bulk-inserts
    // fresh keys (the mask grows several times and lazy rehashing moves the keys to child buckets as soon as somebody
    // touches those), the others erase by accessor / by key and look keys up
    bool grow_theme = theme == 1;
    g_hash_kind = erase_theme ? 1 + (int)sim::draw(2, "hash") : grow_theme ? 2 * (int)sim::draw(2, "hash") : (int)sim::draw(4, "hash");
    g_shift = erase_theme ? (int)sim::draw_range(6, 10, "shift") : grow_theme ? (int)sim::draw_range(1, 3, "shift") : (int)sim::draw_range(1, 10, "shift");
    int nkeys = erase_theme ? (int)sim::draw_range(3, 6, "nkeys") : grow_theme ? (int)sim::draw_range(4, 6, "nkeys") : (int)sim::draw_range(1, 6, "nkeys");
    static const int prefills[] = {0, 0, 1, 2, 3, 6, 7, 14, 15, 30, 31, 62, 126, 250, 254, 255, 256, 510};
    int prefill = sim::draw_of(prefills, "prefill");
    int nbuckets = (int)sim::draw(3, "nbuckets");
    if (grow_theme) { prefill = 0; if (nbuckets == 0) nbuckets = 1; }
    static const char* const hn[] = {"identity", "constant", "lowbits-collide", "mix"};
    d.add(hx::fmt("concurrent_hash_map hash=%s shift=%d keys=%d prefill=%d initial_buckets=%d%s", hn[g_hash_kind], g_shift, nkeys, prefill, nbuckets, erase_theme ? " theme=erase-in-chain (all keys present at start)" : grow_theme ? " theme=erase-while-growing (all keys present at start)" : ""));
    std::vector<std::vector<Plan>> plan(nthreads);
    int total = 0, bulk_budget = 2, bulk_next = 5000;
    for (int t = 0; t < nthreads; ++t) {
        int nops = (int)sim::draw_range(1, 7, "nops");
        std::string s = hx::fmt("T%d:", t);
        for (int i = 0; i < nops && total < 22; ++i, ++total) {
            OK k = (OK)sim::draw(NOPS, "op");
            if (erase_theme) { static const OK eo[] = {ERASE, ERASE, ERASE, ERASE, FIND_CACC, FIND_CACC, ERASE_ACC, INS, COUNT, ERASE}; k = eo[sim::draw(10, "eop")]; }
            if (grow_theme) { static const OK go[] = {ERASE_ACC, ERASE_ACC, ERASE_ACC, ERASE, FIND_CACC, FIND_CACC, COUNT, COUNT, INS, ERASE_ACC}; k = (t == 0 && i == 0) ? BULK : go[sim::draw(10, "gop")]; }
            int key = (int)sim::draw((uint64_t)nkeys, "key");
            int hold = (int)sim::draw(4, "hold");
            // bulk insert of fresh keys (outside the checked histories): lets the table grow by one or two steps
            // while another thread's operation is in flight
            static const int bulks[] = {5, 40, 130, 260, 520};
            if (k == BULK) { if (bulk_budget-- <= 0) k = COUNT; else hold = sim::draw_of(bulks, "bulk_n"); }
            plan[t].push_back({k, key, hold});
            s += k == BULK ? hx::fmt(" bulk-insert(%d)", hold) : hx::fmt(" %s(k%d)/%d", kOp[k], key, hold);
        }
        d.add(s);
    }
    d.publish();

    Map* m = nbuckets ? new Map((size_t)nbuckets) : new Map;
    // sequential prefill with keys from a disjoint range moves the table close to a growth threshold
    for (int i = 0; i < prefill; ++i) m->insert(std::make_pair(1000 + i, Val(500000 + i)));

    std::vector<std::vector<Ev>> hist(nkeys);
    if (erase_theme || grow_theme) for (int k = 0; k < nkeys; ++k) {      // sequential inserts, part of each key's history
        Ev e; e.op.k = INS; e.op.tag = 900 + (uint64_t)k; e.inv = sim::step(); sim::upoint();
        e.op.ok = m->insert(std::make_pair(k, Val(e.op.tag)));
        sim::upoint(); e.res = sim::step(); hist[k].push_back(e);
    }
    std::vector<int> bulk_keys;
    std::vector<std::function<void()>> fns;
    for (int t = 0; t < nthreads; ++t) {
        fns.push_back([&, t] {
            int seq = 0;
            for (const Plan& p : plan[t]) {
                uint64_t mytag = (uint64_t)(t + 1) * 1000 + (uint64_t)(++seq);
                Ev e; e.op.k = p.k; e.op.ok = false; e.op.tag = 0;
                if (p.k == BULK) {
                    for (int i = 0; i < p.hold; ++i) {
                        int bk = bulk_next++;
                        bool ok = m->insert(std::make_pair(bk, Val(600000 + (uint64_t)bk)));
                        SIM_CHECK(ok, "oracle:insert-result", "insert of fresh key %d reported failure", bk);
                        bulk_keys.push_back(bk);
                    }
                    continue;
                }
                e.inv = sim::step();
                switch (p.k) {
                case INS: e.op.ok = m->insert(std::make_pair(p.key, Val(mytag))); e.op.tag = mytag; e.res = sim::step(); break;
                case EMPL: e.op.ok = m->emplace(p.key, mytag); e.op.tag = mytag; e.res = sim::step(); break;
                case INS_ACC: {
                    Map::accessor a;
                    e.op.ok = m->insert(a, std::make_pair(p.key, Val(mytag)));
                    e.op.tag = a->second.tag; e.res = sim::step();
                    if (e.op.ok) SIM_CHECK(a->second.tag == mytag, "oracle:wrong-element", "insert returned true but the accessor points to another element");
                    SIM_CHECK(a->first == p.key, "oracle:wrong-element", "accessor points to key %d, expected %d", a->first, p.key);
                    hold_element(a->second, true, p.hold, p.key);
                    break;
                }
                case INS_CACC: {
                    Map::const_accessor a;
                    e.op.ok = m->insert(a, std::make_pair(p.key, Val(mytag)));
                    e.op.tag = a->second.tag; e.res = sim::step();
                    SIM_CHECK(a->first == p.key, "oracle:wrong-element", "accessor points to key %d, expected %d", a->first, p.key);
                    hold_element(a->second, false, p.hold, p.key);
                    break;
                }
                case FIND_ACC: {
                    Map::accessor a;
                    e.op.ok = m->find(a, p.key);
                    if (e.op.ok) e.op.tag = a->second.tag;
                    e.res = sim::step();
                    if (e.op.ok) { SIM_CHECK(a->first == p.key, "oracle:wrong-element", "find returned key %d for %d", a->first, p.key); hold_element(a->second, true, p.hold, p.key); }
                    break;
                }
                case FIND_CACC: {
                    Map::const_accessor a;
                    e.op.ok = m->find(a, p.key);
                    if (e.op.ok) e.op.tag = a->second.tag;
                    e.res = sim::step();
                    if (e.op.ok) { SIM_CHECK(a->first == p.key, "oracle:wrong-element", "find returned key %d for %d", a->first, p.key); hold_element(a->second, false, p.hold, p.key); }
                    break;
                }
                case COUNT: e.op.ok = m->count(p.key) != 0; e.res = sim::step(); break;
                case ERASE: e.op.ok = m->erase(p.key); e.res = sim::step(); break;
                case ERASE_ACC: {
                    // find + erase by accessor: recorded as two operations (find, then erase of that element)
                    Map::accessor a;
                    bool found = m->find(a, p.key);
                    Ev f; f.op.k = FIND_ACC; f.op.ok = found; f.op.tag = found ? a->second.tag : 0; f.inv = e.inv; f.res = sim::step();
                    hist[p.key].push_back(f);
                    if (!found) continue;
                    hold_element(a->second, true, p.hold, p.key);
                    e.inv = sim::step(); e.op.tag = a->second.tag;
                    e.op.ok = m->erase(a); e.res = sim::step();
                    break;
                }
                default: break;
                }
                hist[p.key].push_back(e);
            }
        });
    }
    {   // the table's mask is a version-like word: operations read it first and validate it later (stale-read amplifier)
        struct PeekMap : Map { const void* mask_word() const { return &this->my_mask; } };
        sim::stale_watch(static_cast<const PeekMap*>(m)->mask_word(), sizeof(size_t));
    }
    hx::run_fibers(fns);
    // quiescent part: optional rehash, final reads (part of each key's history), size and traversal
    if (sim::draw_bool("final_rehash")) m->rehash();
    size_t present = 0;
    std::map<int, uint64_t> final_tags;
    for (int k = 0; k < nkeys; ++k) {
        Ev e; e.op.k = FIND_CACC; e.inv = sim::step(); sim::upoint();
        { Map::const_accessor a; e.op.ok = m->find(a, k); e.op.tag = e.op.ok ? a->second.tag : 0; }
        sim::upoint(); e.res = sim::step();
        hist[k].push_back(e);
        if (e.op.ok) { ++present; final_tags[k] = e.op.tag; }
    }
    for (int k = 0; k < nkeys; ++k) {
        lin::Checker<KModel, MOp> chk; std::string why;
        if (!chk.check(hist[k], KModel(), &why))
            sim::fail("oracle:not-linearizable", "history of key %d is not linearizable to a map: %s; history:%s", k, why.c_str(), hist_text(hist[k]).c_str());
    }
    size_t others = (size_t)prefill + bulk_keys.size();
    SIM_CHECK(m->size() == present + others, "oracle:size", "size() == %zu at quiescence but %zu keys are present", m->size(), present + others);
    for (int bk : bulk_keys) { Map::const_accessor a; SIM_CHECK(m->find(a, bk) && a->second.tag == 600000 + (uint64_t)bk, "oracle:lost-key", "bulk-inserted key %d cannot be found at quiescence", bk); }
    std::map<int, int> seen;
    for (auto it = m->begin(); it != m->end(); ++it) {
        seen[it->first]++;
        if (it->first < 1000) SIM_CHECK(final_tags.count(it->first) && final_tags[it->first] == it->second.tag, "oracle:traversal", "traversal yields key %d (tag %llu) which find() does not report", it->first, (unsigned long long)it->second.tag);
        else if (it->first < 5000) SIM_CHECK(it->second.tag == (uint64_t)(500000 + it->first - 1000), "oracle:traversal", "prefilled key %d has a wrong value", it->first);
    }
    for (auto& kv : seen) SIM_CHECK(kv.second == 1, "oracle:traversal", "key %d appears %d times in a traversal", kv.first, kv.second);
    SIM_CHECK(seen.size() == present + others, "oracle:traversal", "traversal yields %zu keys, %zu expected (a key was lost during rehashing)", seen.size(), present + others);
    for (int i = 0; i < prefill; ++i) SIM_CHECK(seen.count(1000 + i), "oracle:traversal", "prefilled key %d was lost", 1000 + i);
    delete m;
    SIM_CHECK(g_live_vals == 0, "oracle:element-balance", "%d mapped values alive after the map was destroyed", g_live_vals);
}
