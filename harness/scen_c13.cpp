// C13 — concurrent_priority_queue: linearizable priority queue, conservation, exceptions stay with the
// operation that caused them.
#include "common.h"
#include "lincheck.h"
#include "oneapi/tbb/concurrent_priority_queue.h"

namespace {
struct PF { int throw_at = 0, copies = 0; bool armed = false; int live = 0; int out_throw_at = 0, out_assigns = 0; };
PF* G = nullptr;
struct pq_throw : std::exception {};
struct Item {
    int prio; uint64_t id;
    bool is_out = false;        // the caller's destination object of a try_pop (mode throw-out: the assignment into it may throw)
    Item(int p = 0, uint64_t i = 0) : prio(p), id(i) { G->live++; }
    Item(const Item& o) : prio(o.prio), id(o.id) { if (G->armed && ++G->copies == G->throw_at) { sim::fault_fired("throw-copy"); throw pq_throw(); } G->live++; }
    Item(Item&& o) : prio(o.prio), id(o.id) { G->live++; }
    Item& operator=(const Item& o) { if (G->armed && ++G->copies == G->throw_at) { sim::fault_fired("throw-copy"); throw pq_throw(); } prio = o.prio; id = o.id; return *this; }
    Item& operator=(Item&& o) {
        if (is_out && G->armed && G->out_throw_at && ++G->out_assigns == G->out_throw_at) { sim::fault_fired("throw-out-assign"); throw pq_throw(); }   // nothing modified yet
        prio = o.prio; id = o.id; return *this; }
    ~Item() { G->live--; }
};
struct Less { bool operator()(const Item& a, const Item& b) const { return a.prio < b.prio; } };

enum OK { PUSH, EMPLACE, TRY_POP };
const char* const kOp[] = {"push", "emplace", "try_pop"};
struct POp { OK k; int prio; uint64_t id; bool ok; };
struct PModel {
    std::vector<std::pair<int, uint64_t>> v;   // kept sorted by (prio,id)
    bool apply(const POp& o) {
        if (o.k != TRY_POP) { v.insert(std::upper_bound(v.begin(), v.end(), std::make_pair(o.prio, o.id)), {o.prio, o.id}); return true; }
        if (!o.ok) return v.empty();
        if (v.empty()) return false;
        int top = v.back().first;
        for (size_t i = v.size(); i-- > 0 && v[i].first == top;)
            if (v[i].second == o.id) { if (o.prio != top) return false; v.erase(v.begin() + (long)i); return true; }
        return false;   // not a highest-priority element (or not present)
    }
    uint64_t hash() const { uint64_t h = 1469598103934665603ull; for (auto& p : v) h = (h ^ (p.second * 8 + (uint64_t)p.first)) * 1099511628211ull; return h; }
};
using Ev = lin::Event<POp>;
struct Plan { OK k; int prio; int points; };
}

SIM_SCENARIO(scen_c13, "c13", "C13", 600000, 3000) {
    hx::Desc d;
    PF pf; G = &pf;
    int nthreads = (int)sim::draw_range(2, 4, "threads");
    int mode = (int)sim::draw(5, "mode");   // 0..2 strict, 3 throwing copy (push side), 4 the assignment into try_pop's destination throws
    if (mode == 3) pf.throw_at = (int)sim::draw_range(1, 14, "throw_at");
    if (mode == 4) pf.out_throw_at = (int)sim::draw_range(1, 6, "out_throw_at");
    int prefill = (int)sim::draw(4, "prefill");
    const char* mt = mode == 3 ? "throw" : mode == 4 ? "throw-out" : "strict";
    sim::set_tag("mode=%s", mt);
    d.add(hx::fmt("concurrent_priority_queue mode=%s throw_at=%d out_throw_at=%d prefill=%d", mt, pf.throw_at, pf.out_throw_at, prefill));
    std::vector<std::vector<Plan>> plan(nthreads);
    int total = 0;
    for (int t = 0; t < nthreads; ++t) {
        int nops = (int)sim::draw_range(1, 7, "nops");
        std::string s = hx::fmt("T%d:", t);
        for (int i = 0; i < nops && total < 20; ++i, ++total) {
            OK k = (OK)sim::draw(3, "op"); int prio = (int)sim::draw(4, "prio"); int pts = (int)sim::draw(3, "points");
            plan[t].push_back({k, prio, pts});
            s += k == TRY_POP ? " try_pop" : hx::fmt(" %s(p%d)", kOp[k], prio);
        }
        d.add(s);
    }
    d.publish();
    {
    tbb::concurrent_priority_queue<Item, Less> q;
    std::vector<Ev> hist;
    for (int i = 0; i < prefill; ++i) { Ev e; e.op = {PUSH, i % 4, (uint64_t)(900 + i), true}; e.inv = sim::step(); q.push(Item(i % 4, 900 + i)); sim::upoint(); e.res = sim::step(); hist.push_back(e); }
    pf.armed = true;
    int threw = 0;
    std::vector<std::function<void()>> fns;
    for (int t = 0; t < nthreads; ++t) {
        fns.push_back([&, t] {
            int seq = 0;
            for (const Plan& p : plan[t]) {
                for (int i = 0; i < p.points; ++i) sim::upoint();
                uint64_t id = (uint64_t)(t + 1) * 1000 + (uint64_t)(++seq);
                Ev e; e.op = {p.k, p.prio, id, true};
                e.inv = sim::step();
                bool record = true;
                try {
                    if (p.k == PUSH) { Item it(p.prio, id); q.push(it); }
                    else if (p.k == EMPLACE) q.emplace(p.prio, id);
                    else { Item out; out.is_out = true; e.op.ok = q.try_pop(out); e.op.prio = out.prio; e.op.id = e.op.ok ? out.id : 0; }
                } catch (pq_throw&) {   // reaches the caller of that operation only; no effect
                    record = false; ++threw;
                    if (mode == 4) SIM_CHECK(p.k == TRY_POP, "oracle:wrong-caller", "[mode=%s] the exception thrown by the assignment into a try_pop's destination reached the caller of a %s", mt, kOp[p.k]);
                }
                catch (std::bad_alloc&) { record = false; ++threw; SIM_CHECK(mode >= 3, "oracle:spurious-exception", "bad_alloc from an operation although nothing threw"); }
                e.res = sim::step();
                if (record) hist.push_back(e);
            }
        });
    }
    hx::run_fibers(fns);
    pf.armed = false;
    for (;;) {   // drain: sequential tail of the history, ends with a failing try_pop (conservation)
        Ev e; e.op.k = TRY_POP; e.inv = sim::step(); sim::upoint();
        Item out; e.op.ok = q.try_pop(out); e.op.prio = out.prio; e.op.id = e.op.ok ? out.id : 0;
        sim::upoint(); e.res = sim::step(); hist.push_back(e);
        if (!e.op.ok) break;
        SIM_CHECK(hist.size() < 60, "oracle:invented-item", "drain does not terminate");
    }
    std::map<uint64_t, int> pushed, popped;
    for (auto& e : hist) { if (e.op.k != TRY_POP) pushed[e.op.id]++; else if (e.op.ok) popped[e.op.id]++; }
    for (auto& kv : popped) {
        SIM_CHECK(pushed.count(kv.first), "oracle:invented-item", "[mode=%s] element %llu popped but never pushed (or its push reported an exception)", mt, (unsigned long long)kv.first);
        SIM_CHECK(kv.second == 1, "oracle:duplicate-item", "[mode=%s] element %llu popped %d times", mt, (unsigned long long)kv.first, kv.second);
    }
    for (auto& kv : pushed) SIM_CHECK(popped.count(kv.first), "oracle:lost-item", "[mode=%s] element %llu pushed but never popped (queue drained to empty)", mt, (unsigned long long)kv.first);
    lin::Checker<PModel, POp> chk; std::string why;
    if (!chk.check(hist, PModel(), &why)) {
        std::string s;
        for (size_t i = 0; i < hist.size(); ++i) s += hx::fmt(" #%zu[%llu,%llu]%s(p%d,id%llu)%s", i, (unsigned long long)hist[i].inv, (unsigned long long)hist[i].res, kOp[hist[i].op.k], hist[i].op.prio,
                                                              (unsigned long long)hist[i].op.id, hist[i].op.ok ? "" : "=empty");
        sim::fail("oracle:not-linearizable", "[mode=%s] history is not linearizable to a priority queue: %s; history:%s", mt, why.c_str(), s.c_str());
    }
    if (threw) sim::probe("op-threw");
    }
    SIM_CHECK(pf.live == 0, "oracle:element-balance", "%d element objects alive after the queue was destroyed", pf.live);
    G = nullptr;
}
