// C01 (recall) — workers are called away from an arena while affinitized work is in flight.  An arena whose slots were
// all occupied once runs a statically / affinity partitioned loop with fewer threads than slots; while the workers are
// inside their chunks, work appears in an arena of higher priority (or the worker limit drops), so the workers are
// recalled as soon as their current task ends - leaving proxies of mailed tasks in their pools and in the mailboxes of
// vacant slots.  Whoever remains (the caller alone, or late workers) must carry out every chunk exactly once and the
// loop must return.
#include "rt_common.h"
#include "oneapi/tbb/global_control.h"
#include "oneapi/tbb/task_group.h"
#include "oneapi/tbb/task_scheduler_observer.h"

SIM_SCENARIO(scen_c01d, "c01d", "C01", 8000000, 40000) {
    hx::Desc d;
    hx::Units units;
    static const int Ps[] = {3, 4, 6, 8};
    sim::g_cfg.P = sim::draw_of(Ps, "P");
    static const int knobs[] = {-1, 0, 1, 3};
    sim::g_cfg.spin_knob = sim::draw_of(knobs, "spin_knob");
    int S = (int)sim::draw_range(3, (uint64_t)std::min(sim::g_cfg.P, 6), "slots");
    int K = (int)sim::draw_range(1, (uint64_t)S - 2, "workers_in_step2");
    int part = (int)sim::draw(3, "part");                   // 0 static, 1 affinity (reused between the steps), 2 auto (control)
    int how = (int)sim::draw(4, "recall");                  // 0 higher-priority arena, 1 same-priority arena, 2 worker limit drops to 1, 3 none
    int rounds = (int)sim::draw_range(1, 2, "rounds"), mult = (int)sim::draw_range(1, 2, "chunks_per_slot");
    static const int ptsv[] = {1, 4, 12};
    int pts = sim::draw_of(ptsv, "points"), settle = (int)sim::draw(40, "settle");
    static const char* const kP[] = {"static", "affinity", "auto"};
    static const char* const kH[] = {"higher-priority arena gets work", "second arena gets work", "worker limit drops to 1", "no recall"};
    d.add(hx::fmt("recall P=%d spin_knob=%d arena(%d) step2 with %d worker(s), %s partitioner, %d chunk(s)/slot, %s, rounds=%d points=%d settle=%d", sim::g_cfg.P, sim::g_cfg.spin_knob, S, K,
                  kP[part], mult, kH[how], rounds, pts, settle));
    d.publish();
    tbb::task_arena arena(S);
    tbb::task_arena other(K + 1, 1, how == 0 ? tbb::task_arena::priority::high : tbb::task_arena::priority::normal);
    tbb::affinity_partitioner ap;
    auto loop = [&](int n, const std::function<void(int)>& body) {
        arena.execute([&] {
            switch (part) {
            case 0: tbb::parallel_for(0, n, body, tbb::static_partitioner()); break;
            case 1: tbb::parallel_for(0, n, body, ap); break;
            default: tbb::parallel_for(0, n, body, tbb::auto_partitioner()); break;
            }
        });
    };
    for (int r = 0; r < rounds; ++r) {
        // step 1: every slot gets an occupant once (bounded wait for the others inside the chunks)
        {
            std::vector<int> ids; for (int i = 0; i < S; ++i) ids.push_back(units.add());
            int arrived = 0;
            loop(S, [&](int i) { units.begin(ids[(size_t)i]); ++arrived; for (int k = 0; k < 300 && arrived < S; ++k) sim::upoint(); units.end(ids[(size_t)i]); });
            units.check_done(ids, "parallel_for (step 1)");
        }
        sim::wait_quiescent();         // the workers leave the arena and go to sleep: the slots are vacant
        // step 2: fewer threads than slots; the workers are called away while they are inside their chunks
        std::unique_ptr<tbb::global_control> few(new tbb::global_control(tbb::global_control::max_allowed_parallelism, (size_t)K + 1));
        bool release = false; int inside = 0, other_done = 0; bool recalled = false;
        tbb::task_group otg;
        std::unique_ptr<tbb::global_control> one;
        {
            int n = S * mult;
            std::vector<int> ids; for (int i = 0; i < n; ++i) ids.push_back(units.add());
            loop(n, [&](int i) {
                units.begin(ids[(size_t)i]);
                if (i == 0) {
                    for (int k = 0; k < 400 && inside < K; ++k) sim::upoint();
                    for (int k = 0; k < settle; ++k) sim::upoint();
                    if (how <= 1) for (int k = 0; k < K; ++k) other.enqueue(otg.defer([&] { for (int j = 0; j < 3000 && !release; ++j) sim::upoint(); ++other_done; }));
                    else if (how == 2) one.reset(new tbb::global_control(tbb::global_control::max_allowed_parallelism, 1));
                    recalled = true;
                    if (inside > 0 && how != 3) sim::probe("recall-while-inside-chunk");
                } else if (!recalled) {
                    ++inside;
                    for (int k = 0; k < 600 && !recalled; ++k) sim::upoint();
                }
                for (int k = 0; k < pts; ++k) sim::upoint();
                units.end(ids[(size_t)i]);
            });
            units.check_done(ids, "parallel_for (step 2, workers recalled)");
        }
        release = true;
        one.reset(); few.reset();
        // the enqueued work of the other arena is carried out too (never lost)
        if (how <= 1) { other.execute([&] { otg.wait(); }); SIM_CHECK(other_done == K, "oracle:enqueue-lost", "%d of %d tasks enqueued into the second arena ran", other_done, K); }
    }
    for (size_t i = 0; i < units.u.size(); ++i)
        SIM_CHECK(units.u[i].started == 1 && units.u[i].finished == 1, "oracle:ran-twice", "unit %zu started=%d finished=%d", i, units.u[i].started, units.u[i].finished);
}
