// C18 — tbbmalloc fails cleanly when the OS / a pool's raw allocator refuses memory or when a request cannot
// be represented; memory pools stay inside their raw memory and give it back exactly once.
#include "common.h"
#include "oneapi/tbb/scalable_allocator.h"
#define TBB_PREVIEW_MEMORY_POOL 1
#include "oneapi/tbb/memory_pool.h"
#include "shadow_heap.h"

using hx::ShadowHeap;

namespace {

struct Region { char* p; size_t n; int pool; bool freed; char* base = nullptr; };
struct PoolCtx {
    int id; rml::MemoryPool* pool = nullptr; bool fixed = false; int raw_allocs = 0; int fail_at = 0; int fail_until = 0; bool destroyed = false;
    bool keep_all = false;      // MemPoolPolicy::keepAllMemory
    int refusals = 0;           // refused raw requests since the last pool operation returned
    std::vector<void*> blocks;
};
std::vector<Region>* g_regions = nullptr;
std::vector<PoolCtx>* g_pools = nullptr;
char* g_fixed_buf = nullptr; size_t g_fixed_size = 0;
size_t g_raw_off = 0;     // knob: where inside its own allocation the harness places a raw region (alignment of the region base)

void* raw_alloc(intptr_t pool_id, size_t& bytes) {
    PoolCtx& pc = (*g_pools)[(size_t)pool_id];
    int k = ++pc.raw_allocs;
    if (pc.fixed) {
        SIM_CHECK(k == 1, "oracle:fixed-pool-raw", "fixed pool %d called its raw allocator %d times", pc.id, k);
        bytes = g_fixed_size;
        g_regions->push_back({g_fixed_buf, g_fixed_size, pc.id, false});
        return g_fixed_buf;
    }
    if (pc.fail_at && k >= pc.fail_at && k <= pc.fail_until) {
        sim::fault_fired("pool-raw-oom");
        // a refused request must make the pool operation fail, not retry for ever
        SIM_CHECK(++pc.refusals <= 2000, "oracle:pool-oom-spin", "pool %d (keepAllMemory=%d) asked its refusing raw allocator %d times within one operation and never gave up", pc.id, (int)pc.keep_all, pc.refusals);
        sim::upoint();
        return nullptr;
    }
    char* base = (char*)malloc(bytes + g_raw_off);
    char* p = base + g_raw_off;
    sim::note("pool%d raw_alloc %p..%p (%zu)", pc.id, (void*)p, (void*)(p + bytes), bytes);
    g_regions->push_back({p, bytes, pc.id, false, base});
    return p;
}
int raw_free(intptr_t pool_id, void* ptr, size_t bytes) {
    PoolCtx& pc = (*g_pools)[(size_t)pool_id];
    for (auto& r : *g_regions) {
        if (r.p == (char*)ptr && !r.freed) {
            SIM_CHECK(r.pool == pc.id, "oracle:pool-raw-free", "pool %d returned region %p that belongs to pool %d", pc.id, ptr, r.pool);
            SIM_CHECK(r.n == bytes, "oracle:pool-raw-free", "pool %d returned region %p with size %zu, it was obtained with size %zu", pc.id, ptr, bytes, r.n);
            // nothing may be handed back while a block inside it is still in use by the program
            for (void* b : pc.blocks) SIM_CHECK(!((char*)b >= r.p && (char*)b < r.p + r.n), "oracle:pool-raw-free", "pool %d returned region %p while block %p inside it is still in use", pc.id, ptr, b);
            r.freed = true;
            sim::note("pool%d raw_free %p (%zu)", pc.id, ptr, bytes);
            if (!pc.fixed) free(r.base);
            return 0;
        }
    }
    sim::fail("oracle:pool-raw-free", "pool %d returned region %p (%zu bytes) that is not an outstanding region of it (returned twice or never obtained)", pc.id, ptr, bytes);
}
void check_inside(PoolCtx& pc, void* b, size_t n, const char* what) {
    for (auto& r : *g_regions) if (!r.freed && r.pool == pc.id && (char*)b >= r.p && (char*)b + n <= r.p + r.n) return;
    sim::fail("oracle:pool-containment", "%s: block %p (%zu bytes) of pool %d does not lie inside memory obtained from that pool's raw allocator", what, b, n, pc.id);
}

enum OK { MALLOC, CALLOC, REALLOC, ALIGNED, MEMALIGN, FREE, EXTREME, P_MALLOC, P_ALIGNED, P_REALLOC, P_FREE, P_RESET, NOPS };
const char* const kOp[] = {"malloc", "calloc", "realloc", "aligned_malloc", "posix_memalign", "free", "extreme", "pool_malloc", "pool_aligned_malloc", "pool_realloc", "pool_free", "pool_reset"};
struct Plan { OK k; size_t size; size_t align; int pick; };
}

SIM_SCENARIO(scen_c18, "c18", "C18", 3000000, 20000) {
    hx::Desc d;
    ShadowHeap heap;
    std::vector<Region> regions; g_regions = &regions;
    std::vector<PoolCtx> pools; g_pools = &pools;
    int nthreads = (int)sim::draw_range(1, 3, "threads");
    // F-oom: the k-th raw OS allocation (mmap/mremap through the simulator) fails, optionally a window of them
    int oom_mode = (int)sim::draw(4, "oom_mode");   // 0 none, 1 single k, 2 window, 3 everything from k on for m calls
    if (oom_mode) {
        sim::g_cfg.oom_at = (uint64_t)sim::draw_range(1, 14, "oom_at");
        sim::g_cfg.oom_until = oom_mode == 1 ? sim::g_cfg.oom_at : sim::g_cfg.oom_at + (uint64_t)sim::draw_range(1, oom_mode == 2 ? 3 : 40, "oom_len");
    }
    int npools = (int)sim::draw(3, "npools");
    static const size_t offs[] = {0, 16, 48, 4096 - 16, 4096, 16384 - 64};
    g_raw_off = sim::draw_of(offs, "raw_region_offset");
    g_fixed_size = (size_t)1 << sim::draw_range(16, 21, "fixed_log2");
    g_fixed_buf = (char*)malloc(g_fixed_size);
    pools.resize((size_t)npools);
    for (int i = 0; i < npools; ++i) {
        pools[i].id = i; pools[i].fixed = i == 1 && sim::draw_bool("fixed");
        if (!pools[i].fixed) pools[i].keep_all = sim::draw_bool("keep_all_memory");
        if (!pools[i].fixed && sim::draw_bool("pool_oom")) {
            pools[i].fail_at = (int)sim::draw_range(1, 8, "pool_fail_at");
            int len = (int)sim::draw(4, "pool_fail_len");      // 0-2 further calls, or refused from there on
            pools[i].fail_until = len == 3 ? 1 << 30 : pools[i].fail_at + len;
        }
    }
    d.add(hx::fmt("tbbmalloc-oom threads=%d oom_at=%llu..%llu pools=%d raw-region-offset=%zu", nthreads, (unsigned long long)sim::g_cfg.oom_at, (unsigned long long)sim::g_cfg.oom_until, npools, g_raw_off));
    for (auto& pc : pools) d.add(hx::fmt("pool%d: fixed=%d keepAll=%d raw-fail=%d..%d", pc.id, (int)pc.fixed, (int)pc.keep_all, pc.fail_at, pc.fail_until));
    std::vector<std::vector<Plan>> plan(nthreads);
    for (int t = 0; t < nthreads; ++t) {
        int nops = (int)sim::draw_range(2, 14, "nops");
        std::string s = hx::fmt("T%d:", t);
        for (int i = 0; i < nops; ++i) {
            Plan p; p.k = (OK)sim::draw(npools ? NOPS : P_MALLOC, "op");
            p.size = hx::draw_alloc_size(); p.align = (size_t)1 << sim::draw_range(0, 16, "align_log2"); p.pick = (int)sim::draw(64, "pick");
            plan[t].push_back(p);
            s += hx::fmt(" %s(%zu)", kOp[p.k], p.size);
        }
        d.add(s);
    }
    d.publish();
    for (int i = 0; i < npools; ++i) {
        // fixed pools get no raw-free callback (as oneTBB's own fixed_pool wrapper does): the buffer stays with its owner
        rml::MemPoolPolicy pol(raw_alloc, pools[i].fixed ? (rml::rawFreeType) nullptr : raw_free, 0, pools[i].fixed, pools[i].keep_all);
        rml::MemPoolError e = rml::pool_create_v1((intptr_t)i, &pol, &pools[i].pool);
        if (e != rml::POOL_OK) { pools[i].pool = nullptr; sim::probe("pool-create-failed"); }
    }
    std::vector<std::vector<void*>> mine(nthreads);
    int nulls = 0;
    auto expect_fail = [&](void* q, const char* what) { SIM_CHECK(q == nullptr, "oracle:alloc-result", "%s returned a block for an unrepresentable request", what); };
    auto worker = [&](int t) {
        for (const Plan& p : plan[t]) {
            sim::upoint();
            switch (p.k) {
            case MALLOC: { errno = 0; void* q = scalable_malloc(p.size); if (!q) { ++nulls; SIM_CHECK(errno == ENOMEM, "oracle:alloc-result", "scalable_malloc(%zu) returned null with errno %d", p.size, errno); } heap.on_alloc(q, p.size, 0, false, "scalable_malloc"); if (q) mine[t].push_back(q); break; }
            case CALLOC: { size_t n = 1 + p.pick % 4, sz = p.size / n + 1; void* q = scalable_calloc(n, sz); if (!q) ++nulls; heap.on_alloc(q, n * sz, 0, true, "scalable_calloc"); if (q) mine[t].push_back(q); break; }
            case ALIGNED: { void* q = scalable_aligned_malloc(p.size, p.align); if (!q) ++nulls; heap.on_alloc(q, p.size, p.align, false, "scalable_aligned_malloc"); if (q) mine[t].push_back(q); break; }
            case MEMALIGN: {
                size_t al = p.align < sizeof(void*) ? sizeof(void*) : p.align;
                void* q = (void*)0x1; int rc = scalable_posix_memalign(&q, al, p.size);
                SIM_CHECK(rc == 0 || rc == ENOMEM, "oracle:alloc-result", "posix_memalign(%zu,%zu) returned %d", al, p.size, rc);
                if (rc == 0) { heap.on_alloc(q, p.size, al, false, "scalable_posix_memalign"); if (q) mine[t].push_back(q); } else ++nulls;
                break;
            }
            case REALLOC: {
                if (mine[t].empty()) break;
                size_t i = (size_t)p.pick % mine[t].size(); void* old = mine[t][i]; size_t newsz = p.size ? p.size : 1;
                ShadowHeap::Saved sv = heap.before_realloc(old);
                void* q = scalable_realloc(old, newsz);
                heap.after_realloc(sv, old, q, newsz, 0, "realloc");
                if (q) mine[t][i] = q; else ++nulls;
                break;
            }
            case FREE: {
                if (mine[t].empty()) break;
                size_t i = (size_t)p.pick % mine[t].size(); void* q = mine[t][i]; mine[t].erase(mine[t].begin() + (long)i);
                heap.before_free(q, "scalable_free"); scalable_free(q);
                break;
            }
            case EXTREME: {
                const size_t M = ~(size_t)0;
                switch (p.pick % 9) {
                case 0: expect_fail(scalable_malloc(M - (size_t)p.pick), "scalable_malloc(SIZE_MAX-k)"); break;
                case 1: expect_fail(scalable_malloc(M / 2 + 1 + p.size), "scalable_malloc(>SIZE_MAX/2)"); break;
                case 2: expect_fail(scalable_calloc(M / 3, 4), "scalable_calloc(overflow)"); break;
                case 3: expect_fail(scalable_calloc((size_t)1 << 33, (size_t)1 << 33), "scalable_calloc(2^33,2^33)"); break;
                case 4: { errno = 0; void* q = scalable_aligned_malloc(64, 24); expect_fail(q, "scalable_aligned_malloc(align=24)"); SIM_CHECK(errno == EINVAL, "oracle:alloc-result", "aligned_malloc with a non-power-of-two alignment set errno %d", errno); break; }
                case 5: expect_fail(scalable_aligned_malloc(M - 4096, 4096), "scalable_aligned_malloc(SIZE_MAX-4096)"); break;
                case 6: { void* q = (void*)1; int rc = scalable_posix_memalign(&q, 24, 100); SIM_CHECK(rc == EINVAL, "oracle:alloc-result", "posix_memalign(align=24) returned %d", rc); break; }
                case 7: expect_fail(scalable_aligned_malloc(100, (size_t)1 << 63), "scalable_aligned_malloc(align=2^63)"); break;
                default: { if (!mine[t].empty()) { void* old = mine[t][0]; ShadowHeap::Saved sv = heap.before_realloc(old); void* q = scalable_realloc(old, M - 100); expect_fail(q, "scalable_realloc(SIZE_MAX-100)"); heap.after_realloc(sv, old, q, 1, 0, "realloc-extreme"); } break; }
                }
                sim::probe("extreme-args");
                break;
            }
            default: {   // pool operations
                PoolCtx& pc = pools[(size_t)p.pick % pools.size()];
                if (!pc.pool) break;
                size_t sz = (p.pick & 8) ? p.size % ((size_t)5 << 20) : p.size % 70000;     // also large objects (own regions)
                pc.refusals = 0;
                if (p.k == P_MALLOC || p.k == P_ALIGNED) {
                    void* q = p.k == P_MALLOC ? rml::pool_malloc(pc.pool, sz) : rml::pool_aligned_malloc(pc.pool, sz, p.align > 4096 ? 4096 : p.align);
                    if (!q) { ++nulls; break; }
                    check_inside(pc, q, sz, kOp[p.k]);
                    SIM_CHECK(rml::pool_identify(q) == pc.pool, "oracle:pool-identify", "pool_identify(%p) does not name pool %d", q, pc.id);
                    if (p.k == P_ALIGNED) SIM_CHECK((uintptr_t)q % (p.align > 4096 ? 4096 : p.align) == 0, "oracle:alignment", "pool_aligned_malloc result %p not aligned to %zu", q, p.align);
                    heap.on_alloc(q, sz, 0, false, kOp[p.k], pc.pool);
                    sim::note("pool%d %s by T%d: %p size %zu", pc.id, kOp[p.k], t, q, sz);
                    pc.blocks.push_back(q);
                } else if (p.k == P_FREE && !pc.blocks.empty()) {
                    size_t i = (size_t)p.pick % pc.blocks.size(); void* q = pc.blocks[i]; pc.blocks.erase(pc.blocks.begin() + (long)i);
                    heap.before_free(q, "pool_free"); rml::pool_free(pc.pool, q);
                } else if (p.k == P_REALLOC && !pc.blocks.empty()) {
                    size_t i = (size_t)p.pick % pc.blocks.size(); void* old = pc.blocks[i];
                    pc.blocks.erase(pc.blocks.begin() + (long)i);     // nobody else may pick it while we work on it
                    ShadowHeap::Saved sv = heap.before_realloc(old);
                    void* q = rml::pool_realloc(pc.pool, old, sz ? sz : 1);
                    heap.after_realloc(sv, old, q, sz ? sz : 1, 0, "pool_realloc", pc.pool);
                    if (q) { pc.blocks.push_back(q); check_inside(pc, q, sz ? sz : 1, "pool_realloc"); } else { pc.blocks.push_back(old); ++nulls; }
                } else if (p.k == P_RESET && nthreads == 1) {
                    for (void* q : pc.blocks) heap.before_free(q, "pool_reset");   // reset releases every block of the pool
                    pc.blocks.clear();
                    rml::pool_reset(pc.pool);
                }
                break;
            }
            }
            heap.check_all("after an operation (possibly after an injected failure)");
        }
    };
    std::vector<std::function<void()>> fns;
    for (int t = 0; t < nthreads; ++t) fns.push_back([&, t] { worker(t); });
    hx::run_fibers(fns);
    heap.check_all("at quiescence");
    // once memory is available again the next requests succeed
    sim::g_cfg.oom_at = 0; sim::g_cfg.oom_until = 0;
    for (auto& pc : pools) pc.fail_at = 0;
    for (size_t sz : {(size_t)24, (size_t)5000, (size_t)100000, (size_t)3000000}) {
        void* q = scalable_malloc(sz);
        SIM_CHECK(q != nullptr, "oracle:recovery", "scalable_malloc(%zu) still fails after memory became available again", sz);
        heap.on_alloc(q, sz, 0, false, "recovery scalable_malloc"); heap.before_free(q, "recovery free"); scalable_free(q);
    }
    // pool_reset after the threads that used the pool have exited (their partly used slabs were orphaned inside the pool),
    // then the same size classes again, by the main thread and by a new thread: blocks inside the pool's regions, no overlap
    for (auto& pc : pools) {
        if (!pc.pool || pc.fixed || sim::draw(2, "reset_after_exit") == 0) continue;
        // what the exited threads used: remember a few of their sizes before everything is released
        std::vector<size_t> sizes;
        for (void* q : pc.blocks) { sizes.push_back(heap.size_of(q)); if (sizes.size() >= 6) break; }
        for (size_t x : {(size_t)16, (size_t)64, (size_t)200, (size_t)1000, (size_t)3000, (size_t)8000}) sizes.push_back(x);
        for (void* q : pc.blocks) heap.before_free(q, "pool_reset");
        pc.blocks.clear();
        bool ok = rml::pool_reset(pc.pool);
        SIM_CHECK(ok, "oracle:alloc-result", "pool_reset reported failure");
        auto again = [&](const char* who) {
            for (size_t k = 0; k < sizes.size() * 2; ++k) {
                size_t sz = sizes[k % sizes.size()] % 70000; pc.refusals = 0;
                void* q = rml::pool_malloc(pc.pool, sz);
                if (!q) continue;
                check_inside(pc, q, sz, who);
                SIM_CHECK(rml::pool_identify(q) == pc.pool, "oracle:pool-identify", "pool_identify(%p) does not name pool %d (after pool_reset)", q, pc.id);
                heap.on_alloc(q, sz, 0, false, who, pc.pool);
                sim::note("pool%d %s: %p size %zu", pc.id, who, q, sz);
                heap.check_all("after an allocation that follows pool_reset");
                pc.blocks.push_back(q);
                sim::upoint();
            }
            heap.check_all("after pool_reset and new allocations");
        };
        again("pool_malloc after pool_reset (main thread)");
        int late = sim::spawn([&] { again("pool_malloc after pool_reset (new thread)"); }, "late");
        sim::join(late);
        sim::probe("pool-reset-after-thread-exit");
    }
    if (nulls) sim::probe("request-failed-cleanly");
    for (auto& v : mine) for (void* q : v) { heap.before_free(q, "final free"); scalable_free(q); }
    for (auto& pc : pools) {
        if (!pc.pool) continue;
        for (void* q : pc.blocks) heap.before_free(q, "pool_destroy");
        pc.blocks.clear();
        rml::pool_destroy(pc.pool); pc.destroyed = true;
        for (auto& r : regions) if (r.pool == pc.id && !pc.fixed) SIM_CHECK(r.freed, "oracle:pool-raw-free", "pool_destroy did not return raw region %p (%zu bytes) of pool %d", (void*)r.p, r.n, pc.id);
    }
    g_regions = nullptr; g_pools = nullptr;
}

// c18b — the OS refuses memory exactly while the table of back references has to grow.  Every slab block and every
// large object owns one back reference; when the leaves are used up BackRefMain::requestNewSpace() asks for 64 KB of
// raw memory, and if that is refused falls back to the ordinary backend path, which may run the cache clean-ups (and those
// give back references back).  Caches are filled first; then objects that need one back reference each are allocated
// until the table grows, with the refusal aimed at the n-th 64 KB mapping and a drawn number of raw requests after it.
SIM_SCENARIO(scen_c18b, "c18b", "C18", 4000000, 30000) {
    hx::Desc d;
    ShadowHeap heap;
    int nthreads = (int)sim::draw_range(1, 2, "threads");
    static const size_t big[] = {70000, 300000, (size_t)3 << 20};
    static const int lens[] = {0, 1, 2, 6, 100000};
    size_t big_sz = sim::draw_of(big, "cached_big_block");
    int cached_slabs = (int)sim::draw_range(0, 6, "cached_slabs"), cached_large = (int)sim::draw_range(0, 3, "cached_large");
    int soft = (int)sim::draw(3, "soft_limit");                       // 0 none, 1 one byte, 2 1 MB
    int nth = (int)sim::draw_range(1, 3, "refuse_nth_64k"), len = sim::draw_of(lens, "refuse_len");
    int count = (int)sim::draw_range(20, 110, "objects");
    int free_every = (int)sim::draw(5, "free_every");                 // 0: never; else every k-th object is released again later
    d.add(hx::fmt("tbbmalloc back-reference table growth under refusal: threads=%d caches{big=%zu slabs=%d large=%d} soft-limit=%s refuse the %d. 64KB mapping and %d raw requests after it; %d objects/thread, free_every=%d",
                  nthreads, big_sz, cached_slabs, cached_large, soft == 0 ? "none" : soft == 1 ? "1" : "1MB", nth, len, count, free_every));
    std::vector<std::vector<size_t>> sizes(nthreads);
    for (int t = 0; t < nthreads; ++t) for (int i = 0; i < count; ++i) sizes[t].push_back(sim::draw(3) ? 8000 : (size_t)sim::draw_range(8200, 30000, "large_size"));
    d.publish();
    std::vector<std::vector<void*>> mine(nthreads);
    int nulls = 0;
    auto alloc = [&](int t, size_t sz, const char* what) -> void* {
        errno = 0; void* q = scalable_malloc(sz);
        if (!q) { ++nulls; SIM_CHECK(errno == ENOMEM, "oracle:alloc-result", "scalable_malloc(%zu) returned null with errno %d", sz, errno); return nullptr; }
        heap.on_alloc(q, sz, 0, false, what); (void)t; return q;
    };
    auto release = [&](void* q, const char* what) { if (!q) return; heap.before_free(q, what); scalable_free(q); };
    auto worker = [&](int t) {
        // caches: a released big block, released slabs of several size classes, released large objects
        void* b = alloc(t, big_sz, "cache-fill big"); release(b, "cache-fill free");
        std::vector<void*> tmp;
        for (int i = 0; i < cached_slabs; ++i) tmp.push_back(alloc(t, (size_t)48 << i, "cache-fill slab"));
        for (int i = 0; i < cached_large; ++i) tmp.push_back(alloc(t, 9000 + 5000 * (size_t)i, "cache-fill large"));
        for (void* q : tmp) release(q, "cache-fill free");
        if (t == 0) {
            if (soft) scalable_allocation_mode(TBBMALLOC_SET_SOFT_HEAP_LIMIT, soft == 1 ? 1 : 1 << 20);
            sim::g_cfg.oom_size = 64 * 1024; sim::g_cfg.oom_size_nth = nth; sim::g_cfg.oom_size_len = (uint64_t)len;
        }
        for (size_t i = 0; i < sizes[t].size(); ++i) {
            sim::upoint();
            void* q = alloc(t, sizes[t][i], "scalable_malloc (table growth phase)");
            if (q) mine[t].push_back(q);
            if (free_every && i % (size_t)free_every == (size_t)free_every - 1 && mine[t].size() > 2) {
                size_t j = (i * 7) % mine[t].size(); release(mine[t][j], "scalable_free (table growth phase)"); mine[t].erase(mine[t].begin() + (long)j);
            }
            if (i % 16 == 15) heap.check_all("during the table growth phase");
        }
    };
    std::vector<std::function<void()>> fns;
    for (int t = 0; t < nthreads; ++t) fns.push_back([&, t] { worker(t); });
    hx::run_fibers(fns);
    heap.check_all("at quiescence");
    sim::g_cfg.oom_size = 0; sim::g_cfg.oom_at = 0; sim::g_cfg.oom_until = 0;
    if (soft) scalable_allocation_mode(TBBMALLOC_SET_SOFT_HEAP_LIMIT, 0);
    for (size_t sz : {(size_t)24, (size_t)8000, (size_t)20000, (size_t)3000000}) {
        void* q = scalable_malloc(sz);
        SIM_CHECK(q != nullptr, "oracle:recovery", "scalable_malloc(%zu) still fails after memory became available again", sz);
        heap.on_alloc(q, sz, 0, false, "recovery scalable_malloc"); heap.before_free(q, "recovery free"); scalable_free(q);
    }
    if (nulls) sim::probe("request-failed-cleanly");
    for (auto& v : mine) for (void* q : v) release(q, "final free");
    heap.check_all("at the end");
}
