// Helpers shared by all scenarios.
#pragma once
#include "sim.h"
#include "sim_rt.h"
#include <string>
#include <vector>
#include <sstream>

namespace hx {

// printf-style std::string
inline std::string fmt(const char* f, ...) __attribute__((format(printf, 1, 2)));
inline std::string fmt(const char* f, ...) {
    char buf[512];
    va_list ap; va_start(ap, f); vsnprintf(buf, sizeof buf, f, ap); va_end(ap);
    return buf;
}

// Program description collected while generating; becomes the evidence sample / replay text.
struct Desc {
    std::string s;
    void add(const std::string& x) { if (!s.empty()) s += "; "; s += x; }
    void publish() { sim::set_sample(s); }
};

// run fns on scenario fibers and join them all
inline void run_fibers(std::vector<std::function<void()>> fns) {
    std::vector<int> ids;
    for (auto& f : fns) ids.push_back(sim::spawn(f, "user"));
    for (int id : ids) sim::join(id);
}

}  // namespace hx
