// C17 — tbbmalloc: blocks disjoint, aligned, big enough, contents preserved; foreign frees; thread exit
// with live blocks (orphaned slabs); cleanup commands in between.
// C18 lives in scen_c18.cpp and reuses the shadow heap below.
#include "common.h"
#include "oneapi/tbb/scalable_allocator.h"
#include "shadow_heap.h"

using hx::ShadowHeap;

namespace {
enum OK { MALLOC, CALLOC, REALLOC, ALIGNED, ALIGNED_REALLOC, MEMALIGN, FREE, FREE_FOREIGN, MSIZE, CLEAN, NOPS };
const char* const kOp[] = {"malloc", "calloc", "realloc", "aligned_malloc", "aligned_realloc", "posix_memalign", "free", "free_foreign", "msize", "clean"};
struct Plan { OK k; size_t size; size_t align; int pick; };
}

SIM_SCENARIO(scen_c17, "c17", "C17", 3000000, 20000) {
    hx::Desc d;
    ShadowHeap heap;
    int nthreads = (int)sim::draw_range(1, 4, "threads");
    bool exiting = sim::draw_bool("thread_exit_with_live_blocks");
    // theme "large objects" (1 run in 4): a handful of large sizes from different 8 KB-wide cache bins, allocated and freed in
    // mixed order, so that the thread-local large-object cache is flushed (cleanup command, thread exit, overflow) with
    // lists that interleave several bins, and the sizes are allocated again afterwards
    bool large_theme = sim::draw(4, "large_theme") == 0;
    d.add(hx::fmt("tbbmalloc threads=%d orphan=%d%s", nthreads, (int)exiting, large_theme ? " theme=large-objects" : ""));
    std::vector<std::vector<Plan>> plan(nthreads);
    for (int t = 0; t < nthreads; ++t) {
        int nops = large_theme ? (int)sim::draw_range(8, 30, "nops") : (int)sim::draw_range(2, 16, "nops");
        std::string s = hx::fmt("T%d:", t);
        for (int i = 0; i < nops; ++i) {
            static const OK mix[] = {MALLOC, MALLOC, MALLOC, CALLOC, REALLOC, ALIGNED, ALIGNED_REALLOC, MEMALIGN, FREE, FREE, FREE_FOREIGN, FREE_FOREIGN, MSIZE, CLEAN};
            Plan p; p.k = mix[sim::draw(14, "op")];
            if (large_theme) { static const OK lmix[] = {MALLOC, MALLOC, MALLOC, MALLOC, FREE, FREE, FREE, FREE, FREE, CLEAN, CLEAN, FREE_FOREIGN, REALLOC, MSIZE}; p.k = lmix[sim::draw(14, "lop")]; }
            p.size = hx::draw_alloc_size(); p.align = (size_t)1 << sim::draw_range(0, sim::draw(8, "bigalign") ? 12 : 20, "align_log2"); p.pick = (int)sim::draw(64, "pick");
            if (large_theme) { static const size_t ls[] = {9000, 17500, 26000, 34500, 43000, 51500, 60000}; p.size = ls[sim::draw(7, "lsize")] + (size_t)sim::draw(200, "ladd"); }
            plan[t].push_back(p);
            s += (p.k == FREE || p.k == FREE_FOREIGN || p.k == MSIZE || p.k == CLEAN) ? hx::fmt(" %s", kOp[p.k]) : hx::fmt(" %s(%zu,a%zu)", kOp[p.k], p.size, p.align);
        }
        d.add(s);
    }
    d.publish();
    std::vector<std::vector<void*>> mine(nthreads);   // blocks allocated by each thread, still live
    std::vector<void*> shared;                         // blocks handed to other threads
    auto worker = [&](int t) {
        for (const Plan& p : plan[t]) {
            sim::upoint();
            switch (p.k) {
            case MALLOC: { void* q = scalable_malloc(p.size); heap.on_alloc(q, p.size, 0, false, "scalable_malloc"); if (q) mine[t].push_back(q); break; }
            case CALLOC: { size_t n = 1 + p.pick % 4, sz = p.size / n + 1; void* q = scalable_calloc(n, sz); heap.on_alloc(q, n * sz, 0, true, "scalable_calloc"); if (q) mine[t].push_back(q); break; }
            case ALIGNED: { void* q = scalable_aligned_malloc(p.size, p.align); heap.on_alloc(q, p.size, p.align, false, "scalable_aligned_malloc"); if (q) mine[t].push_back(q); break; }
            case MEMALIGN: {
                size_t al = p.align < sizeof(void*) ? sizeof(void*) : p.align;
                void* q = nullptr; int rc = scalable_posix_memalign(&q, al, p.size);
                SIM_CHECK(rc == 0 || q == nullptr, "oracle:alloc-result", "posix_memalign returned %d with a block", rc);
                if (rc == 0) { heap.on_alloc(q, p.size, al, false, "scalable_posix_memalign"); if (q) mine[t].push_back(q); }
                break;
            }
            case REALLOC: case ALIGNED_REALLOC: {
                if (mine[t].empty()) { void* q = scalable_realloc(nullptr, p.size); heap.on_alloc(q, p.size, 0, false, "scalable_realloc(null)"); if (q) mine[t].push_back(q); break; }
                size_t i = (size_t)p.pick % mine[t].size();
                void* old = mine[t][i];
                size_t newsz = p.size ? p.size : 1;
                ShadowHeap::Saved sv = heap.before_realloc(old);
                void* q = p.k == REALLOC ? scalable_realloc(old, newsz) : scalable_aligned_realloc(old, newsz, p.align);
                heap.after_realloc(sv, old, q, newsz, p.k == REALLOC ? 0 : p.align, kOp[p.k]);
                if (q) mine[t][i] = q;
                break;
            }
            case FREE: {
                if (mine[t].empty()) break;
                size_t i = (size_t)p.pick % mine[t].size();
                void* q = mine[t][i]; mine[t].erase(mine[t].begin() + (long)i);
                heap.before_free(q, "scalable_free(own)"); scalable_free(q);
                break;
            }
            case FREE_FOREIGN: {
                // hand one of my blocks over, and free one that somebody else handed over
                if (!mine[t].empty() && p.pick % 2 == 0) { size_t i = (size_t)p.pick % mine[t].size(); shared.push_back(mine[t][i]); mine[t].erase(mine[t].begin() + (long)i); }
                if (!shared.empty()) { size_t i = (size_t)p.pick % shared.size(); void* q = shared[i]; shared.erase(shared.begin() + (long)i); heap.before_free(q, "scalable_free(foreign)"); scalable_free(q); sim::probe("foreign-free"); }
                break;
            }
            case MSIZE: {
                if (mine[t].empty()) break;
                void* q = mine[t][(size_t)p.pick % mine[t].size()];
                heap.check_msize(q, scalable_msize(q));
                break;
            }
            case CLEAN: scalable_allocation_command(p.pick % 2 ? TBBMALLOC_CLEAN_ALL_BUFFERS : TBBMALLOC_CLEAN_THREAD_BUFFERS, nullptr); break;
            default: break;
            }
            if (p.pick % 5 == 0) heap.check_all("after an operation");
        }
        // thread exit with live blocks: they stay live (orphaned slabs) and are freed by the main fiber later
        if (exiting) { for (void* q : mine[t]) shared.push_back(q); mine[t].clear(); sim::probe("thread-exit-with-live-blocks"); }
    };
    std::vector<std::function<void()>> fns;
    for (int t = 0; t < nthreads; ++t) fns.push_back([&, t] { worker(t); });
    hx::run_fibers(fns);
    heap.check_all("at quiescence");
    // a later thread allocates the same classes (orphan adoption) while the survivor frees the old blocks
    int late = sim::spawn([&] {
        for (int i = 0; i < 6; ++i) { size_t sz = hx::draw_alloc_size() % 2000; void* q = scalable_malloc(sz); heap.on_alloc(q, sz, 0, false, "late scalable_malloc"); if (q) { heap.before_free(q, "late free"); scalable_free(q); } }
    }, "late");
    for (void* q : shared) { heap.before_free(q, "scalable_free(orphan)"); scalable_free(q); sim::upoint(); }
    for (auto& v : mine) for (void* q : v) { heap.before_free(q, "scalable_free(final)"); scalable_free(q); }
    sim::join(late);
    SIM_CHECK(heap.live() == 0, "tool:harness", "shadow heap not empty");
}
