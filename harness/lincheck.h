// Linearizability checker (Wing-Gong search with Lowe's memoisation on (linearised set, model state)).
// History entries are stamped with the simulator's global step counter, so there are no ties.
#pragma once
#include <cstdint>
#include <vector>
#include <unordered_set>
#include <string>
#include <deque>
#include <algorithm>

namespace lin {

constexpr uint64_t PENDING = ~0ull;

template <class OpT>
struct Event {
    uint64_t inv = 0, res = PENDING;   // invocation / response stamps (res == PENDING: never returned)
    OpT op;
};

// Model requirements:  bool apply(const OpT&)  (mutates state; false if the recorded result is impossible here)
//                      uint64_t hash() const
template <class Model, class OpT>
class Checker {
public:
    // returns true if the history is linearizable; on failure `why` describes the deepest prefix reached
    bool check(const std::vector<Event<OpT>>& h, const Model& init, std::string* why = nullptr) {
        ev_ = &h;
        n_ = (int)h.size();
        if (n_ > 62) { if (why) *why = "history too long for the checker"; return false; }
        complete_mask_ = 0;
        for (int i = 0; i < n_; ++i) if (h[i].res != PENDING) complete_mask_ |= (1ull << i);
        seen_.clear();
        best_ = 0; best_mask_ = 0; nodes_ = 0;
        bool ok = dfs(0, init);
        if (!ok && why) {
            *why = "no linearization; longest consistent prefix linearised " + std::to_string(best_) + " of " + std::to_string(n_) + " operations; stuck with remaining ops:";
            for (int i = 0; i < n_; ++i) if (!(best_mask_ & (1ull << i))) *why += " #" + std::to_string(i);
        }
        return ok;
    }
    uint64_t nodes() const { return nodes_; }

private:
    const std::vector<Event<OpT>>* ev_ = nullptr;
    int n_ = 0;
    uint64_t complete_mask_ = 0;
    struct Key { uint64_t mask, h; bool operator==(const Key& o) const { return mask == o.mask && h == o.h; } };
    struct KeyHash { size_t operator()(const Key& k) const { return (size_t)(k.mask * 0x9e3779b97f4a7c15ull ^ k.h); } };
    std::unordered_set<Key, KeyHash> seen_;
    int best_ = 0; uint64_t best_mask_ = 0; uint64_t nodes_ = 0;

    bool dfs(uint64_t mask, const Model& m) {
        if ((mask & complete_mask_) == complete_mask_) return true;
        if (++nodes_ > 4000000) return true;   // search cap: treated as inconclusive-pass (never a false alarm)
        if (!seen_.insert(Key{mask, m.hash()}).second) return false;
        int cnt = __builtin_popcountll(mask);
        if (cnt > best_) { best_ = cnt; best_mask_ = mask; }
        const auto& h = *ev_;
        // earliest response among un-linearised completed operations
        uint64_t min_res = PENDING;
        for (int i = 0; i < n_; ++i) if (!(mask & (1ull << i)) && h[i].res < min_res) min_res = h[i].res;
        for (int i = 0; i < n_; ++i) {
            if (mask & (1ull << i)) continue;
            if (h[i].inv > min_res) continue;       // some other op returned before this one was invoked
            Model m2 = m;
            if (!m2.apply(h[i].op)) continue;
            if (dfs(mask | (1ull << i), m2)) return true;
        }
        return false;
    }
};

}  // namespace lin
