// C06 — parallel_reduce / parallel_deterministic_reduce / parallel_scan / parallel_sort equal the
// sequential result for any input and schedule.
#include "rt_common.h"
#include "oneapi/tbb/parallel_reduce.h"
#include "oneapi/tbb/parallel_scan.h"
#include "oneapi/tbb/parallel_sort.h"
#include "oneapi/tbb/blocked_range.h"

namespace {

const char* const kPart[] = {"simple", "auto", "static", "affinity"};
using Seq = std::vector<int>;   // free monoid: join = concatenation (non-commutative, exposes any reorder/loss/duplicate)

int g_next_body = 0;
struct BodyLog { int id, parent; bool running = false, joined = false, finished_once = false; int splits = 0; };
std::vector<BodyLog>* g_bodies = nullptr;

// Body form with split/join logging
struct CatBody {
    Seq v; int id; int pts; int nested = 0;   // nested: 0 none, 1 / 2: a parallel_for (auto / static) in the middle of every leaf
    CatBody(int p, int ne = 0) : id(g_next_body++), pts(p), nested(ne) { g_bodies->push_back({id, -1}); }
    CatBody(CatBody& o, tbb::split) : id(g_next_body++), pts(o.pts), nested(o.nested) { g_bodies->push_back({id, o.id}); (*g_bodies)[o.id].splits++; }
    void operator()(const tbb::blocked_range<int>& r) {
        // (index each time: the log vector may grow while we are suspended at a schedule point)
        SIM_CHECK(!(*g_bodies)[id].running, "oracle:body-overlap", "reduction body %d entered concurrently", id);
        SIM_CHECK(!(*g_bodies)[id].joined, "oracle:join-order", "reduction body %d used after it was joined into its parent", id);
        (*g_bodies)[id].running = true;
        int mid = r.begin() + (r.end() - r.begin()) / 2;
        for (int i = r.begin(); i < mid; ++i) v.push_back(i);
        if (nested) {   // the thread waits here and may meanwhile take other tasks of the same reduction
            auto leaf = [this](int) { for (int k = 0; k < 2 + pts; ++k) sim::upoint(); };
            if (nested == 1) tbb::parallel_for(0, 4, leaf, tbb::auto_partitioner()); else tbb::parallel_for(0, 4, leaf, tbb::static_partitioner());
        }
        for (int i = mid; i < r.end(); ++i) v.push_back(i);
        for (int k = 0; k < pts; ++k) sim::upoint();
        (*g_bodies)[id].running = false;
    }
    void join(CatBody& rhs) {
        BodyLog& me = (*g_bodies)[id]; BodyLog& o = (*g_bodies)[rhs.id];
        SIM_CHECK(o.parent == id, "oracle:join-order", "body %d (split from %d) was joined into body %d", rhs.id, o.parent, id);
        SIM_CHECK(!o.joined, "oracle:join-order", "body %d joined twice", rhs.id);
        SIM_CHECK(!o.running && !me.running, "oracle:join-order", "join(%d <- %d) while one of them is still running", id, rhs.id);
        o.joined = true;
        v.insert(v.end(), rhs.v.begin(), rhs.v.end());
    }
};

void check_seq(const Seq& got, int n, const char* what) {
    SIM_CHECK((int)got.size() == n, "oracle:reduce-result", "%s: result has %zu elements, expected %d (lost or duplicated operands)", what, got.size(), n);
    for (int i = 0; i < n; ++i) SIM_CHECK(got[i] == i, "oracle:reduce-result", "%s: operand order differs from the sequential fold at position %d (got %d)", what, i, got[i]);
}

int draw_n() {
    static const int sizes[] = {0, 1, 2, 3, 5, 8, 13, 16, 17, 31, 33, 64, 100, 127, 129, 255, 500, 1000};
    return sim::draw_of(sizes, "n");
}

template <class F> void with_part(int part, F f) {
    tbb::affinity_partitioner ap;
    switch (part) {
    case 0: { tbb::simple_partitioner p; f(p); break; }
    case 1: { tbb::auto_partitioner p; f(p); break; }
    case 2: { tbb::static_partitioner p; f(p); break; }
    default: f(ap); f(ap); break;
    }
}

void scen_reduce(hx::Desc& d) {
    int n = draw_n(), g = (int)sim::draw_range(1, 8, "grain"), part = (int)sim::draw(4, "part"), form = (int)sim::draw(2, "form");
    static const int ptsv[] = {0, 1, 5, 20};
    int pts = sim::draw_of(ptsv, "points");
    static const int nestv[] = {0, 0, 0, 1, 2};
    int nested = form == 0 ? sim::draw_of(nestv, "nested") : 0;
    if (nested && n > 64) n = n % 64 + 8;
    d.add(hx::fmt("parallel_reduce %s form n=%d grain=%d %s nested=%d", form ? "functional" : "Body", n, g, kPart[part], nested)); d.publish();
    std::vector<BodyLog> logs; g_bodies = &logs; g_next_body = 0;
    tbb::blocked_range<int> range(0, n, (size_t)g);
    if (form == 0) {
        with_part(part, [&](auto& p) {
            logs.clear(); g_next_body = 0;
            CatBody b(pts, nested);
            tbb::parallel_reduce(range, b, p);
            check_seq(b.v, n, "parallel_reduce(Body)");
            for (auto& l : logs) if (l.parent >= 0) SIM_CHECK(l.joined, "oracle:join-order", "split-off body %d was never joined back", l.id);
        });
    } else {
        int live = 0;
        with_part(part, [&](auto& p) {
            Seq r = tbb::parallel_reduce(range, Seq(),
                [&](const tbb::blocked_range<int>& rr, Seq acc) { if (++live >= 2) sim::mark_window(); for (int i = rr.begin(); i < rr.end(); ++i) acc.push_back(i);
                                                                 for (int k = 0; k < pts; ++k) sim::upoint(); --live; return acc; },
                [](Seq a, const Seq& b) { a.insert(a.end(), b.begin(), b.end()); return a; }, p);
            check_seq(r, n, "parallel_reduce(functional)");
        });
    }
    g_bodies = nullptr;
}

// Deep ranges (auto / affinity partitioner): the operand is kept as a list of coalesced intervals, so that ranges of 2^12..2^17
// elements cost only as much as the number of chunks.  A range that deep lets one task's range pool (8 entries, circular)
// grow past its initial depth, hand out front entries to thieves and wrap around.  Concatenation of intervals is
// associative and not commutative: the result equals the sequential fold iff it is exactly {[0,n)}.
typedef std::vector<std::pair<int, int>> Ivals;
void iv_append(Ivals& a, int b, int e) { if (b == e) return; if (!a.empty() && a.back().second == b) a.back().second = e; else a.push_back({b, e}); }
void scen_reduce_deep(hx::Desc& d) {
    static const int nv[] = {1 << 12, 1 << 14, 1 << 17};
    int n = sim::draw_of(nv, "deep_n"), g = (int)sim::draw_range(1, 3, "grain"), part = sim::draw_bool("deep_affinity") ? 3 : 1;
    static const int ptsv[] = {0, 1, 4};
    int pts = sim::draw_of(ptsv, "points"), hold = (int)sim::draw(4, "hold_leftmost");
    d.add(hx::fmt("parallel_reduce functional form, deep range n=%d grain=%d %s points=%d hold-leftmost=%d", n, g, kPart[part], pts, hold)); d.publish();
    tbb::blocked_range<int> range(0, n, (size_t)g);
    int live = 0;
    with_part(part, [&](auto& p) {
        Ivals r = tbb::parallel_reduce(range, Ivals(),
            [&](const tbb::blocked_range<int>& rr, Ivals acc) {
                if (++live >= 2) sim::mark_window();
                SIM_CHECK(rr.begin() >= 0 && rr.end() <= n && rr.begin() < rr.end(), "oracle:reduce-result", "body called with sub-range [%d,%d) outside [0,%d)", rr.begin(), rr.end(), n);
                iv_append(acc, rr.begin(), rr.end());
                // the left-most chunks take longer: the task that owns them keeps offering work that gets stolen
                int k = pts + (hold && rr.begin() < n / 64 ? 6 * hold : 0);
                for (int i = 0; i < k; ++i) sim::upoint();
                --live; return acc; },
            [](Ivals a, const Ivals& b) { for (auto& x : b) iv_append(a, x.first, x.second); return a; }, p);
        SIM_CHECK(r.size() == 1 && r[0].first == 0 && r[0].second == n, "oracle:reduce-result",
                  "parallel_reduce over [0,%d): result is %zu interval(s), first [%d,%d) - not the sequential left-to-right fold", n, r.size(), r.empty() ? -1 : r[0].first, r.empty() ? -1 : r[0].second);
    });
}

// deterministic reduce with a non-associative floating point operation: bit-identical across schedules.
// The reference is computed by an explicit recursive halving that depends only on (range, grain).
double det_ref(int b, int e, int g) {
    if (e - b <= g) { double a = 0.0; for (int i = b; i < e; ++i) a = a * 1.0000001 + (double)i * 0.1; return a; }
    int m = b + (e - b) / 2;
    double l = det_ref(b, m, g), r = det_ref(m, e, g);
    return l * 1.0000003 + r;
}
void scen_det(hx::Desc& d) {
    int n = draw_n(), g = (int)sim::draw_range(1, 8, "grain"), part = (int)sim::draw(2, "part");   // simple or static
    // every overload family: functional / Body form, with and without an explicit task_group_context, default partitioner
    int form = (int)sim::draw(2, "det_form"), with_ctx = (int)sim::draw(2, "det_ctx"), dflt = !part && sim::draw(3, "det_default_part") == 0;
    static const int dptsv[] = {1, 1, 4, 12};
    int dpts = sim::draw_of(dptsv, "det_points");    // longer chunks: a right chunk may start before or after its left sibling has finished
    d.add(hx::fmt("parallel_deterministic_reduce n=%d grain=%d %s%s form=%s ctx=%d points=%d", n, g, part ? "static" : "simple", dflt ? "(default)" : "", form ? "Body" : "functional", with_ctx, dpts)); d.publish();
    tbb::blocked_range<int> range(0, n, (size_t)g);
    auto body = [&](const tbb::blocked_range<int>& rr, double a) { for (int i = rr.begin(); i < rr.end(); ++i) a = a * 1.0000001 + (double)i * 0.1; for (int k = 0; k < dpts; ++k) sim::upoint(); return a; };
    auto join = [](double l, double r) { return l * 1.0000003 + r; };
    struct DBody {
        double a = 0.0; int pts;
        explicit DBody(int p) : pts(p) {}
        DBody(DBody& o, tbb::split) : pts(o.pts) {}
        void operator()(const tbb::blocked_range<int>& rr) { for (int i = rr.begin(); i < rr.end(); ++i) a = a * 1.0000001 + (double)i * 0.1; for (int k = 0; k < pts; ++k) sim::upoint(); }
        void join(DBody& r) { a = a * 1.0000003 + r.a; }
    };
    auto once = [&]() -> double {
        tbb::task_group_context ctx;
        if (form) {
            DBody b(dpts);
            if (part) { if (with_ctx) tbb::parallel_deterministic_reduce(range, b, tbb::static_partitioner(), ctx); else tbb::parallel_deterministic_reduce(range, b, tbb::static_partitioner()); }
            else if (dflt) { if (with_ctx) tbb::parallel_deterministic_reduce(range, b, ctx); else tbb::parallel_deterministic_reduce(range, b); }
            else { if (with_ctx) tbb::parallel_deterministic_reduce(range, b, tbb::simple_partitioner(), ctx); else tbb::parallel_deterministic_reduce(range, b, tbb::simple_partitioner()); }
            return b.a;
        }
        if (part) return with_ctx ? tbb::parallel_deterministic_reduce(range, 0.0, body, join, tbb::static_partitioner(), ctx) : tbb::parallel_deterministic_reduce(range, 0.0, body, join, tbb::static_partitioner());
        if (dflt) return with_ctx ? tbb::parallel_deterministic_reduce(range, 0.0, body, join, ctx) : tbb::parallel_deterministic_reduce(range, 0.0, body, join);
        return with_ctx ? tbb::parallel_deterministic_reduce(range, 0.0, body, join, tbb::simple_partitioner(), ctx) : tbb::parallel_deterministic_reduce(range, 0.0, body, join, tbb::simple_partitioner());
    };
    // same call three times under whatever schedules the simulator picks: results must be bit-identical
    double r1 = once(), r2 = once(), r3 = once();
    SIM_CHECK(std::memcmp(&r1, &r2, sizeof r1) == 0 && std::memcmp(&r1, &r3, sizeof r1) == 0, "oracle:deterministic-reduce",
              "parallel_deterministic_reduce gave different results for the same range/grain under different schedules: %.17g %.17g %.17g (n=%d grain=%d)", r1, r2, r3, n, g);
    if (!part) {
        // simple_partitioner: the split tree depends only on (range, grain): compare with an explicit recursion,
        // and with a run under a different arena concurrency
        double ref = n ? det_ref(0, n, g) : 0.0;
        SIM_CHECK(std::memcmp(&r1, &ref, sizeof r1) == 0, "oracle:deterministic-reduce", "parallel_deterministic_reduce result %.17g differs from the schedule-independent split tree value %.17g (n=%d grain=%d)", r1, ref, n, g);
        double r4 = 0; tbb::task_arena other((int)sim::draw_range(1, 3, "other_conc")); other.execute([&] { r4 = once(); });
        SIM_CHECK(std::memcmp(&r1, &r4, sizeof r1) == 0, "oracle:deterministic-reduce", "result depends on the arena concurrency: %.17g vs %.17g", r1, r4);
    }
}

struct ScanBody {
    std::vector<int>* out; std::vector<uint8_t>* finals; Seq sum; int pts; int nested;   // nested: 0 none, 1 auto, 2 static: a parallel_for in the middle of every leaf
    ScanBody(std::vector<int>* o, std::vector<uint8_t>* f, int p, int ne) : out(o), finals(f), pts(p), nested(ne) {}
    ScanBody(ScanBody& b, tbb::split) : out(b.out), finals(b.finals), pts(b.pts), nested(b.nested) {}
    template <class Tag> void one(int i) {
        if (Tag::is_final_scan()) {
            // incoming prefix must be exactly 0..i-1
            SIM_CHECK((int)sum.size() == i, "oracle:scan-prefix", "final scan of element %d sees a prefix of %zu operands", i, sum.size());
            if (!sum.empty()) SIM_CHECK(sum.back() == i - 1 && sum.front() == 0, "oracle:scan-prefix", "final scan of element %d sees a wrong prefix", i);
            (*finals)[i]++;
            (*out)[i] = (int)sum.size();
        }
        sum.push_back(i);
    }
    template <class Tag> void operator()(const tbb::blocked_range<int>& r, Tag) {
        int mid = r.begin() + (r.end() - r.begin()) / 2;
        for (int i = r.begin(); i < mid; ++i) one<Tag>(i);
        if (nested) {
            // nested parallelism inside the body: the thread waits here and may meanwhile take other tasks of the scan
            auto leaf = [this](int) { for (int k = 0; k < 2 + pts; ++k) sim::upoint(); };
            if (nested == 1) tbb::parallel_for(0, 4, leaf, tbb::auto_partitioner()); else tbb::parallel_for(0, 4, leaf, tbb::static_partitioner());
        }
        for (int i = mid; i < r.end(); ++i) one<Tag>(i);
        for (int k = 0; k < pts; ++k) sim::upoint();
    }
    void reverse_join(ScanBody& a) { Seq t = a.sum; t.insert(t.end(), sum.begin(), sum.end()); sum.swap(t); }
    void assign(ScanBody& b) { sum = b.sum; }
};
void scen_scan(hx::Desc& d) {
    int n = draw_n() % 300, g = (int)sim::draw_range(1, 8, "grain"), part = (int)sim::draw(2, "part");
    int pts = (int)sim::draw(4, "points");
    static const int nestv[] = {0, 0, 1, 2, 2};
    int nested = sim::draw_of(nestv, "nested");
    if (nested && n > 60) n = n % 60 + 8;      // nested runs are more expensive per leaf
    d.add(hx::fmt("parallel_scan n=%d grain=%d %s nested=%s", n, g, part ? "auto" : "simple", nested == 0 ? "none" : nested == 1 ? "parallel_for(auto)" : "parallel_for(static)")); d.publish();
    std::vector<int> out(n, -1); std::vector<uint8_t> finals(n, 0);
    ScanBody b(&out, &finals, pts, nested);
    tbb::blocked_range<int> range(0, n, (size_t)g);
    if (part) tbb::parallel_scan(range, b, tbb::auto_partitioner()); else tbb::parallel_scan(range, b, tbb::simple_partitioner());
    for (int i = 0; i < n; ++i) SIM_CHECK(finals[i] == 1, "oracle:scan-final-count", "final pass ran %d times for element %d", (int)finals[i], i);
    check_seq(b.sum, n, "parallel_scan total");
}

struct Item { int key; int id; };
struct Cmp { int* calls; bool operator()(const Item& a, const Item& b) const { ++*calls; return a.key < b.key; } };
void scen_sort(hx::Desc& d) {
    static const int sizes[] = {0, 1, 2, 9, 100, 499, 500, 501, 700, 1000, 1500};
    int n = sim::draw_of(sizes, "n");
    int shape = (int)sim::draw(5, "shape");
    static const char* const sn[] = {"sorted", "reverse", "one-inversion", "many-equal", "random"};
    std::vector<Item> v(n);
    for (int i = 0; i < n; ++i) v[i] = {i, i};
    if (shape == 1) for (int i = 0; i < n; ++i) v[i].key = n - i;
    if (shape == 2 && n >= 2) {   // one inversion: every position class (near the front where pretests look, middle, end)
        int p = sim::draw_bool("inv_front") ? (int)sim::draw(std::min<uint64_t>(16, (uint64_t)n - 1), "inv") : (int)sim::draw((uint64_t)n - 1, "inv");
        std::swap(v[p].key, v[p + 1].key);
    }
    if (shape == 3) for (int i = 0; i < n; ++i) v[i].key = (int)((i * 7919u) % 3);
    if (shape == 4) { uint64_t x = 88172645463325252ull + sim::draw(1000, "rs"); for (int i = 0; i < n; ++i) { x ^= x << 13; x ^= x >> 7; x ^= x << 17; v[i].key = (int)(x % 1000); } }
    d.add(hx::fmt("parallel_sort n=%d input=%s", n, sn[shape])); d.publish();
    std::vector<Item> orig = v;
    int calls = 0;
    tbb::parallel_sort(v.begin(), v.end(), Cmp{&calls});
    for (int i = 1; i < n; ++i) SIM_CHECK(!(v[i].key < v[i - 1].key), "oracle:sort-order", "output not sorted at position %d (%d before %d)", i, v[i - 1].key, v[i].key);
    std::vector<uint8_t> seen(n, 0);
    for (int i = 0; i < n; ++i) {
        SIM_CHECK(v[i].id >= 0 && v[i].id < n && !seen[v[i].id], "oracle:sort-permutation", "output is not a permutation of the input (id %d)", v[i].id);
        seen[v[i].id] = 1;
        SIM_CHECK(orig[v[i].id].key == v[i].key, "oracle:sort-permutation", "element %d changed its key", v[i].id);
    }
}

}  // namespace

SIM_SCENARIO(scen_c06, "c06", "C06", 8000000, 40000) {
    hx::Desc d;
    hx::draw_runtime_config(d);
    int conc = (int)sim::draw(5, "arena_conc");
    int kind = (int)sim::draw(7, "kind");
    auto work = [&] {
        switch (kind) {
        case 6: scen_reduce_deep(d); break;
        case 0: case 1: scen_reduce(d); break;
        case 2: scen_det(d); break;
        case 3: scen_scan(d); break;
        default: scen_sort(d); break;
        }
    };
    if (conc) { d.add(hx::fmt("arena(%d)", conc)); tbb::task_arena a(conc); a.execute(work); }
    else work();
}
