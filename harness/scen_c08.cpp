// C08 — mutexes: mutual exclusion, reader/writer rules, truthful upgrade, try never blocks,
// queue order for queuing locks, no lost hand-off (deadlock/livelock criteria of the simulator).
#include "common.h"
#include "oneapi/tbb/spin_mutex.h"
#include "oneapi/tbb/queuing_mutex.h"
#include "oneapi/tbb/mutex.h"
#include "oneapi/tbb/spin_rw_mutex.h"
#include "oneapi/tbb/queuing_rw_mutex.h"
#include "oneapi/tbb/rw_mutex.h"

namespace {

enum Op { ACQ_W, ACQ_R, TRY_W, TRY_R, REL, UPG, DOWN, RAW_LOCK, RAW_TRY, RAW_LOCK_SH, RAW_TRY_SH, RAW_UNLOCK };
const char* const kOpName[] = {"acq_w", "acq_r", "try_w", "try_r", "rel", "upg", "down", "lock", "try_lock", "lock_shared", "try_lock_shared", "unlock"};

struct Book {
    int writers = 0, readers = 0;
    uint64_t wsections = 0;          // number of writer sections entered so far
    std::atomic<uint64_t>* payload;  // written by writers (relaxed), read by every holder
    uint64_t last_written = 0;
    uint64_t next_token = 1;
    // queue-order oracle
    struct Waiter { bool waiting = false; bool write = false; uint64_t entry = 0; bool entered = false; } w[8];
    uint64_t entry_seq = 0;
    const char* lock_name = "";
};
Book* g_book = nullptr;
bool g_fifo = false;

void enter(int me, bool write, const char* how) {
    Book& b = *g_book;
    if (write) {
        SIM_CHECK(b.writers == 0 && b.readers == 0, "oracle:mutual-exclusion",
                  "%s: fiber %d entered a WRITER section via %s while writers=%d readers=%d", b.lock_name, me, how, b.writers, b.readers);
        b.writers++; b.wsections++;
    } else {
        SIM_CHECK(b.writers == 0, "oracle:mutual-exclusion", "%s: fiber %d entered a READER section via %s while writers=%d", b.lock_name, me, how, b.writers);
        b.readers++;
    }
    if (b.writers + b.readers >= 1) sim::mark_window();
}
void body(int me, bool write, int npoints) {
    Book& b = *g_book;
    uint64_t seen = b.payload->load(std::memory_order_relaxed);
    SIM_CHECK(seen == b.last_written, "oracle:visibility", "%s: fiber %d sees payload %llu, last writer wrote %llu", b.lock_name, me,
              (unsigned long long)seen, (unsigned long long)b.last_written);
    for (int i = 0; i < npoints; ++i) {
        sim::upoint();
        if (write) SIM_CHECK(b.writers == 1 && b.readers == 0, "oracle:mutual-exclusion", "%s: writer %d not alone: writers=%d readers=%d", b.lock_name, me, b.writers, b.readers);
        else SIM_CHECK(b.writers == 0, "oracle:mutual-exclusion", "%s: reader %d overlaps a writer", b.lock_name, me);
    }
    if (write) {
        uint64_t t = b.next_token++;
        b.payload->store(t, std::memory_order_relaxed);
        b.last_written = t;
    }
}
void leave(bool write) {
    Book& b = *g_book;
    if (write) b.writers--; else b.readers--;
}

void on_rmw(int kind, const void*) {
    if (kind != sim::K_RMW || !g_book) return;
    int me = sim::self();
    if (me < 0 || me >= 8) return;
    auto& w = g_book->w[me];
    if (w.waiting && !w.entered) { w.entered = true; w.entry = ++g_book->entry_seq; }
}
void begin_wait(int me, bool write) { auto& w = g_book->w[me]; w.waiting = true; w.write = write; w.entered = false; w.entry = 0; }
void granted(int me) {
    Book& b = *g_book;
    auto& w = b.w[me];
    if (g_fifo && w.entered) {
        for (int o = 0; o < 8; ++o) {
            if (o == me) continue;
            auto& x = b.w[o];
            if (x.waiting && x.entered && x.entry < w.entry && (x.write || w.write))
                sim::fail("oracle:queue-order", "%s: fiber %d (entry %llu, %s) was granted before earlier queued conflicting fiber %d (entry %llu, %s)",
                          b.lock_name, me, (unsigned long long)w.entry, w.write ? "writer" : "reader", o, (unsigned long long)x.entry, x.write ? "writer" : "reader");
        }
    }
    w.waiting = false;
}

struct Step { Op op; int points; };

template <class M> struct Traits;
#define TRAITS(T, NAME, RW, RAW, FIFO) \
    template <> struct Traits<T> { static constexpr bool rw = RW, raw = RAW, fifo = FIFO; static const char* name() { return NAME; } \
                                   static constexpr bool sleeps = std::is_same<T, tbb::mutex>::value || std::is_same<T, tbb::rw_mutex>::value; };
TRAITS(tbb::spin_mutex, "spin_mutex", false, true, false)
TRAITS(tbb::queuing_mutex, "queuing_mutex", false, false, true)
TRAITS(tbb::mutex, "mutex", false, true, false)
TRAITS(tbb::spin_rw_mutex, "spin_rw_mutex", true, true, false)
TRAITS(tbb::queuing_rw_mutex, "queuing_rw_mutex", true, false, true)
TRAITS(tbb::rw_mutex, "rw_mutex", true, true, false)
#if __TBB_TSX_INTRINSICS_PRESENT
TRAITS(tbb::speculative_spin_mutex, "speculative_spin_mutex", false, false, false)
TRAITS(tbb::speculative_spin_rw_mutex, "speculative_spin_rw_mutex", true, false, false)
#endif

template <class SL, class M> auto sl_acquire(SL& l, M& m, bool write, int) -> decltype(l.acquire(m, write)) { return l.acquire(m, write); }
template <class SL, class M> void sl_acquire(SL& l, M& m, bool, long) { l.acquire(m); }
template <class SL, class M> auto sl_try(SL& l, M& m, bool write, int) -> decltype(l.try_acquire(m, write)) { return l.try_acquire(m, write); }
template <class SL, class M> bool sl_try(SL& l, M& m, bool, long) { return l.try_acquire(m); }
template <class SL> auto sl_upgrade(SL& l, int) -> decltype(l.upgrade_to_writer()) { return l.upgrade_to_writer(); }
template <class SL> bool sl_upgrade(SL&, long) { return true; }
template <class SL> auto sl_downgrade(SL& l, int) -> decltype(l.downgrade_to_reader()) { return l.downgrade_to_reader(); }
template <class SL> bool sl_downgrade(SL&, long) { return true; }
template <class M> auto raw_lock_shared(M& m, int) -> decltype(m.lock_shared()) { m.lock_shared(); }
template <class M> void raw_lock_shared(M&, long) {}
template <class M> auto raw_try_shared(M& m, int) -> decltype(m.try_lock_shared()) { return m.try_lock_shared(); }
template <class M> bool raw_try_shared(M&, long) { return false; }
template <class M> auto raw_unlock_shared(M& m, int) -> decltype(m.unlock_shared()) { m.unlock_shared(); }
template <class M> void raw_unlock_shared(M&, long) {}
template <class M> auto raw_lock(M& m, int) -> decltype(m.lock()) { m.lock(); }
template <class M> void raw_lock(M&, long) {}
template <class M> auto raw_try(M& m, int) -> decltype(m.try_lock()) { return m.try_lock(); }
template <class M> bool raw_try(M&, long) { return false; }
template <class M> auto raw_unlock(M& m, int) -> decltype(m.unlock()) { m.unlock(); }
template <class M> void raw_unlock(M&, long) {}

bool g_upgrade_focus = false;   // c08b: reader / upgrade / downgrade chains only, longer programs
bool g_sleep_focus = false;     // c08c: blocking acquisitions of the sleeping locks with long critical sections

template <class M>
void run_type(hx::Desc& d) {
    using T = Traits<M>;
    using SL = typename M::scoped_lock;
    const bool focus = g_upgrade_focus;
    int nthreads = (int)sim::draw_range(2, focus ? 3 : 4, "threads");
    // generate a legal per-fiber op sequence
    std::vector<std::vector<Step>> prog(nthreads);
    // tbb::mutex / tbb::rw_mutex put a waiter to sleep only after ~60 spin points: in two runs of three some critical
    // sections are long enough for that, so that the sleep / wake-up protocol (wait set, futex) is really exercised
    const bool long_holds = T::sleeps && (g_sleep_focus || sim::draw(3, "long_holds") != 0);
    for (int t = 0; t < nthreads; ++t) {
        int nops = (int)sim::draw_range(focus ? 2 : 1, focus ? 8 : 6, "nops");
        int held = 0;  // 0 none, 1 read(scoped), 2 write(scoped), 3 raw write, 4 raw read
        std::string s = hx::fmt("T%d:", t);
        for (int i = 0; i < nops; ++i) {
            Op op;
            if (held == 0) {
                std::vector<Op> c = {ACQ_W, TRY_W};
                if (T::rw) { c.push_back(ACQ_R); c.push_back(TRY_R); c.push_back(ACQ_R); }
                if (focus) c = {ACQ_R, ACQ_R, TRY_R, ACQ_W};
                else if (g_sleep_focus) { c = {ACQ_W, RAW_LOCK, RAW_LOCK}; if (T::rw) { c.push_back(ACQ_R); c.push_back(RAW_LOCK_SH); } }
                else if (T::raw) { c.push_back(RAW_LOCK); c.push_back(RAW_TRY); if (T::rw) { c.push_back(RAW_LOCK_SH); c.push_back(RAW_TRY_SH); } }
                op = c[sim::draw(c.size(), "op")];
            } else if (held == 1) {
                std::vector<Op> c = {REL, UPG, UPG};
                if (focus) { c.push_back(UPG); c.push_back(UPG); }
                op = c[sim::draw(c.size(), "op")];
            } else if (held == 2) {
                std::vector<Op> c = {REL};
                if (T::rw) c.push_back(DOWN);
                if (focus) { c.push_back(DOWN); c.push_back(DOWN); }
                op = c[sim::draw(c.size(), "op")];
            } else {
                op = RAW_UNLOCK;
            }
            int pts = (int)sim::draw(4, "points");
            if (long_holds && sim::draw(g_sleep_focus ? 2 : 3, "long") == 0) pts = (int)sim::draw_range(70, 260, "hold");
            prog[t].push_back({op, pts});
            s += hx::fmt(" %s/%d", kOpName[op], pts);
            // update symbolic state assuming success for blocking ops; try ops resolved at run time,
            // so after a try the generator emits the op for the "held" case guarded at run time.
            switch (op) {
            case ACQ_W: held = 2; break;
            case ACQ_R: held = 1; break;
            case TRY_W: held = 2; break;
            case TRY_R: held = 1; break;
            case REL: held = 0; break;
            case UPG: held = 2; break;
            case DOWN: held = 1; break;
            case RAW_LOCK: case RAW_TRY: held = 3; break;
            case RAW_LOCK_SH: case RAW_TRY_SH: held = 4; break;
            case RAW_UNLOCK: held = 0; break;
            }
        }
        d.add(s);
    }
    d.publish();

    // heap objects so that atomics inside them can be registered as TSO regions
    M* m = new M;
    auto* payload = new std::atomic<uint64_t>(0);
    Book book; book.payload = payload; book.lock_name = T::name();
    g_book = &book; g_fifo = T::fifo;
    sim::tso_register(m, sizeof(M));
    sim::tso_register(payload, sizeof(*payload));
    if (T::fifo) sim::set_watch(m, (const char*)m + sizeof(M), on_rmw);

    std::vector<std::function<void()>> fns;
    for (int t = 0; t < nthreads; ++t) {
        fns.push_back([&, t] {
            int me = sim::self();
            SL* l = new SL;
            sim::tso_register(l, sizeof(SL));
            int held = 0;  // as in the generator; resolved with the real outcome of try ops
            uint64_t w_at_read = 0;
            for (const Step& st : prog[t]) {
                Op op = st.op;
                // an op generated for a state we did not reach (failed try) is skipped
                bool need_held = (op == REL || op == UPG || op == DOWN || op == RAW_UNLOCK);
                if (need_held && held == 0) continue;
                if (!need_held && held != 0) continue;
                switch (op) {
                case ACQ_W: case ACQ_R: {
                    bool wr = (op == ACQ_W) || !T::rw;
                    begin_wait(me, wr);
                    sl_acquire(*l, *m, wr, 0);
                    granted(me);
                    enter(me, wr, kOpName[op]); w_at_read = book.wsections;
                    body(me, wr, st.points);
                    held = wr ? 2 : 1;
                    break;
                }
                case TRY_W: case TRY_R: {
                    bool wr = (op == TRY_W) || !T::rw;
                    uint64_t sp0 = sim::my_spin_points();
                    sim::set_noblock(true);
                    bool ok = sl_try(*l, *m, wr, 0);
                    sim::set_noblock(false);
                    SIM_CHECK(sim::my_spin_points() - sp0 <= 64, "oracle:try-blocked", "%s: try_acquire spun %llu times", T::name(),
                              (unsigned long long)(sim::my_spin_points() - sp0));
                    if (ok) { enter(me, wr, kOpName[op]); w_at_read = book.wsections; body(me, wr, st.points); held = wr ? 2 : 1; }
                    break;
                }
                case REL:   // the points of a release are work outside the critical section (no atomic operation: a buffered store of the release stays buffered)
                    if (held == 1 || held == 2) { leave(held == 2); l->release(); held = 0; for (int i = 0; i < st.points; ++i) sim::upoint(); }
                    break;
                case UPG:
                    if (held == 1) {
                        leave(false);
                        bool ok = sl_upgrade(*l, 0);
                        // whatever the result, we now hold the write lock
                        enter(me, true, "upgrade");
                        if (ok) SIM_CHECK(book.wsections == w_at_read + 1, "oracle:upgrade-truth",
                                          "%s: upgrade_to_writer returned true for fiber %d but %llu other writer section(s) ran since its read acquisition",
                                          T::name(), me, (unsigned long long)(book.wsections - w_at_read - 1));
                        body(me, true, st.points);
                        held = 2;
                    }
                    break;
                case DOWN:
                    if (held == 2) {
                        // downgrade never lets a writer in: we stay counted as the writer until the call
                        // returned, then become a reader without a gap
                        leave(true); enter(me, false, "downgrade"); w_at_read = book.wsections;
                        sl_downgrade(*l, 0);
                        SIM_CHECK(book.writers == 0, "oracle:downgrade", "%s: a writer entered during downgrade", T::name());
                        body(me, false, st.points);
                        held = 1;
                    }
                    break;
                case RAW_LOCK:
                    begin_wait(me, true); raw_lock(*m, 0); granted(me);
                    enter(me, true, "lock"); body(me, true, st.points); held = 3;
                    break;
                case RAW_TRY: {
                    uint64_t sp0 = sim::my_spin_points();
                    sim::set_noblock(true);
                    bool ok = raw_try(*m, 0);
                    sim::set_noblock(false);
                    SIM_CHECK(sim::my_spin_points() - sp0 <= 64, "oracle:try-blocked", "%s: try_lock spun", T::name());
                    if (ok) { enter(me, true, "try_lock"); body(me, true, st.points); held = 3; }
                    break;
                }
                case RAW_LOCK_SH:
                    begin_wait(me, false); raw_lock_shared(*m, 0); granted(me);
                    enter(me, false, "lock_shared"); body(me, false, st.points); held = 4;
                    break;
                case RAW_TRY_SH: {
                    sim::set_noblock(true);
                    bool ok = raw_try_shared(*m, 0);
                    sim::set_noblock(false);
                    if (ok) { enter(me, false, "try_lock_shared"); body(me, false, st.points); held = 4; }
                    break;
                }
                case RAW_UNLOCK:
                    if (held == 3) { leave(true); raw_unlock(*m, 0); held = 0; for (int i = 0; i < st.points; ++i) sim::upoint(); }
                    else if (held == 4) { leave(false); raw_unlock_shared(*m, 0); held = 0; for (int i = 0; i < st.points; ++i) sim::upoint(); }
                    break;
                }
            }
            if (held == 1 || held == 2) { leave(held == 2); l->release(); }
            else if (held == 3) { leave(true); raw_unlock(*m, 0); }
            else if (held == 4) { leave(false); raw_unlock_shared(*m, 0); }
            sim::tso_unregister(l, sizeof(SL));
            delete l;
        });
    }
    // c08c, tbb::mutex: optionally a second ("decoy") mutex whose address falls into the same bucket of the library's
    // address-waiter table; the main thread holds it for the whole run and a decoy thread is parked on it, so the wait
    // set that the lock under test uses contains a waiter of another object
    std::vector<tbb::mutex>* pool = nullptr; tbb::mutex* decoy = nullptr; int decoy_fiber = -1;
    if (g_sleep_focus && std::is_same<M, tbb::mutex>::value && sim::draw(3, "decoy") == 0) {
        pool = new std::vector<tbb::mutex>(1u << 16);
        auto bucket = [](const void* a) { std::uintptr_t t = (std::uintptr_t)a; return ((t >> 5) ^ t) % 2048; };
        for (auto& x : *pool) if (bucket(&x) == bucket(m)) { decoy = &x; break; }
        if (decoy) {
            decoy->lock();
            decoy_fiber = sim::spawn([decoy] { decoy->lock(); decoy->unlock(); }, "decoy");
            for (int i = 0; i < 400 && sim::blocked_scenario_fibers() == 0; ++i) sim::point(sim::K_YIELD, nullptr);   // let it park
            sim::probe("mutex:decoy-waiter-in-same-bucket");
        }
    }
    hx::run_fibers(fns);
    if (decoy) { decoy->unlock(); sim::join(decoy_fiber); }
    delete pool;
    SIM_CHECK(book.writers == 0 && book.readers == 0, "tool:harness", "bookkeeping imbalance");
    sim::set_watch(nullptr, nullptr, nullptr);
    sim::tso_unregister(payload, sizeof(*payload));
    sim::tso_unregister(m, sizeof(M));
    g_book = nullptr;
    delete payload;
    delete m;
}

}  // namespace

SIM_SCENARIO(scen_c08, "c08", "C08", 400000, 1500) {
    hx::Desc d;
    sim::g_cfg.tso = sim::draw_bool("tso");
    int type = (int)sim::draw(8, "locktype");
    static const char* const names[] = {"spin_mutex", "queuing_mutex", "mutex", "spin_rw_mutex", "queuing_rw_mutex", "rw_mutex", "speculative_spin_mutex", "speculative_spin_rw_mutex"};
    d.add(hx::fmt("lock=%s tso=%d", names[type], (int)sim::g_cfg.tso));
    switch (type) {
    case 0: run_type<tbb::spin_mutex>(d); break;
    case 1: run_type<tbb::queuing_mutex>(d); break;
    case 2: run_type<tbb::mutex>(d); break;
    case 3: run_type<tbb::spin_rw_mutex>(d); break;
    case 4: run_type<tbb::queuing_rw_mutex>(d); break;
    case 5: run_type<tbb::rw_mutex>(d); break;
    case 6: run_type<tbb::speculative_spin_mutex>(d); break;
    case 7: run_type<tbb::speculative_spin_rw_mutex>(d); break;
    }
}

// c08b: upgrade / downgrade chains on the two queue-based reader-writer locks (successor states UPGRADE_WAITING /
// UPGRADE_LOSER met by a winner that downgrades, upgrades again and releases)
SIM_SCENARIO(scen_c08b, "c08b", "C08", 400000, 1500) {
    hx::Desc d;
    sim::g_cfg.tso = sim::draw_bool("tso");
    int type = (int)sim::draw(4, "locktype");
    g_upgrade_focus = true;
    static const char* const names[] = {"queuing_rw_mutex", "queuing_rw_mutex", "queuing_rw_mutex", "spin_rw_mutex"};
    d.add(hx::fmt("lock=%s tso=%d upgrade-focus", names[type], (int)sim::g_cfg.tso));
    if (type == 3) run_type<tbb::spin_rw_mutex>(d); else run_type<tbb::queuing_rw_mutex>(d);
    g_upgrade_focus = false;
}

// c08c: the sleeping locks (tbb::mutex, tbb::rw_mutex): blocking acquisitions only, critical sections long enough for
// waiters to leave their spin phase, register in the wait set and sleep; store buffers always on (the release and the
// "is anybody waiting" test of the releasing thread against the registration and re-check of the sleeper)
SIM_SCENARIO(scen_c08c, "c08c", "C08", 600000, 4000) {
    hx::Desc d;
    sim::g_cfg.tso = sim::draw(4, "tso") != 0;
    bool rw = sim::draw_bool("rw");
    g_sleep_focus = true;
    d.add(hx::fmt("lock=%s tso=%d sleep-focus", rw ? "rw_mutex" : "mutex", (int)sim::g_cfg.tso));
    if (rw) run_type<tbb::rw_mutex>(d); else run_type<tbb::mutex>(d);
    g_sleep_focus = false;
}
