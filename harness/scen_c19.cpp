// C19 — collaborative_call_once: one successful execution per flag, everybody returns after it, exceptions go to
// exactly one caller and the flag stays callable; enumerable_thread_specific / combinable: one element per
// thread, created once, stable address, never shared, visited exactly once by combine / iteration.
#include "rt_common.h"
#include "oneapi/tbb/collaborative_call_once.h"
#include "oneapi/tbb/enumerable_thread_specific.h"
#include "oneapi/tbb/combinable.h"
#include "oneapi/tbb/parallel_for.h"

namespace {
struct once_throw : std::exception { int attempt; explicit once_throw(int a) : attempt(a) {} };

void scen_once(hx::Desc& d) {
    int ncallers = (int)sim::draw_range(2, 6, "callers");
    unsigned throw_mask = (unsigned)sim::draw(16, "throw_mask") & (sim::draw_bool("throws") ? 0xfu : 0u);   // attempt k throws if bit k set
    int inner_n = (int)sim::draw_range(0, 8, "inner_n");
    static const int ptsv[] = {0, 2, 10, 40};
    int pts = sim::draw_of(ptsv, "points");
    int conc = (int)sim::draw(4, "arena_conc");
    bool callers_in_tasks = sim::draw_bool("callers_in_tasks");
    d.add(hx::fmt("collaborative_call_once callers=%d throw_mask=%#x inner_parallel_for=%d points=%d arena=%d callers_in_tasks=%d", ncallers, throw_mask, inner_n, pts, conc, (int)callers_in_tasks));
    d.publish();
    sim::set_tag("call_once throw_mask=%#x callers=%d", throw_mask, ncallers);
    tbb::collaborative_once_flag* flag = new tbb::collaborative_once_flag;
    sim::tso_register(flag, sizeof(*flag));
    int attempts = 0, completions = 0, running = 0;
    uint64_t completion_step = 0;
    uint64_t payload = 0;   // plain write of f
    int exceptions_caught = 0, normal_returns = 0;
    auto f = [&] {
        int k = attempts++;
        SIM_CHECK(completions == 0, "oracle:once-twice", "the function was started again (attempt %d) after it had already completed successfully", k);
        SIM_CHECK(running == 0, "oracle:once-twice", "two executions of the once-function overlap");
        running++;
        int visited = 0;
        if (inner_n) tbb::parallel_for(0, inner_n, [&](int) { for (int i = 0; i < pts; ++i) sim::upoint(); ++visited; });   // helpers may join here
        else for (int i = 0; i < pts; ++i) sim::upoint();
        SIM_CHECK(visited == inner_n, "oracle:once-incomplete", "nested parallel_for inside the once-function did %d of %d iterations", visited, inner_n);
        running--;
        if (k < 4 && (throw_mask >> k & 1)) { sim::fault_fired("throw-once"); throw once_throw(k); }
        payload = 0xC0FFEE; completions++; completion_step = sim::step();
    };
    auto caller = [&] {
        try {
            tbb::collaborative_call_once(*flag, f);
            uint64_t ret = sim::step();
            ++normal_returns;
            SIM_CHECK(completions == 1, "oracle:once-early-return", "collaborative_call_once returned normally but the function has completed %d times", completions);
            SIM_CHECK(completion_step <= ret && payload == 0xC0FFEE, "oracle:once-early-return", "a caller returned before the function completed (or does not see its effects)");
        } catch (once_throw&) { ++exceptions_caught; }
    };
    std::vector<std::function<void()>> fns;
    tbb::task_arena* arena = conc ? new tbb::task_arena(conc) : nullptr;
    for (int c = 0; c < ncallers; ++c) {
        if (callers_in_tasks && c % 2 == 1) fns.push_back([&] { auto w = [&] { tbb::task_group tg; tg.run(caller); tg.run(caller); tg.wait(); }; if (arena) arena->execute(w); else w(); });
        else fns.push_back([&] { if (arena) arena->execute(caller); else caller(); });
    }
    hx::run_fibers(fns);
    int thrown = 0; for (int k = 0; k < attempts && k < 4; ++k) if (throw_mask >> k & 1) ++thrown;
    SIM_CHECK(exceptions_caught == thrown, "oracle:once-exception", "%d attempts threw but %d callers received an exception (each exception must reach exactly one caller)", thrown, exceptions_caught);
    SIM_CHECK(completions <= 1, "oracle:once-twice", "the function completed successfully %d times", completions);
    if (normal_returns > 0) SIM_CHECK(completions == 1, "oracle:once-early-return", "%d callers returned normally, completions=%d", normal_returns, completions);
    // the flag is still callable: if nothing completed yet, a later call retries and completes
    int before = completions;
    unsigned saved = throw_mask; throw_mask = 0;
    tbb::collaborative_call_once(*flag, f);
    SIM_CHECK(completions == 1, "oracle:once-retry", "a later call did not bring the flag to the completed state (completions before=%d now=%d)", before, completions);
    (void)saved;
    sim::tso_unregister(flag, sizeof(*flag));
    delete flag; delete arena;
}

template <tbb::ets_key_usage_type KT>
void scen_ets(hx::Desc& d, const char* name) {
    int nthreads = (int)sim::draw_range(2, 8, "threads");
    int late = (int)sim::draw(4, "late_threads");
    int naccess = (int)sim::draw_range(1, 4, "accesses");
    d.add(hx::fmt("enumerable_thread_specific<%s> threads=%d late=%d accesses=%d", name, nthreads, late, naccess));
    d.publish();
    struct Val { int owner; int id; };
    int inits = 0;
    std::map<int, int> init_by_fiber;
    using ETS = tbb::enumerable_thread_specific<Val, tbb::cache_aligned_allocator<Val>, KT>;
    ETS* ets = new ETS([&] { int f = sim::self(); init_by_fiber[f]++; sim::upoint(); return Val{f, inits++}; });
    std::map<int, const Val*> addr;          // fiber -> address of its element
    auto worker = [&] {
        int f = sim::self();
        for (int a = 0; a < naccess; ++a) {
            bool exists = false;
            Val& v = ets->local(exists);
            SIM_CHECK(exists == (addr.count(f) != 0), "oracle:ets-exists", "local(exists) reported %d for fiber %d on access %d", (int)exists, f, a);
            SIM_CHECK(v.owner == f, "oracle:ets-shared", "fiber %d received the element created for fiber %d", f, v.owner);
            if (!addr.count(f)) { for (auto& kv : addr) SIM_CHECK(kv.second != &v, "oracle:ets-shared", "fibers %d and %d share one element", kv.first, f); addr[f] = &v; }
            else SIM_CHECK(addr[f] == &v, "oracle:ets-moved", "element of fiber %d moved from %p to %p (or the thread got a second element)", f, (const void*)addr[f], (const void*)&v);
            sim::upoint();
        }
    };
    // epochs: the same threads use the container again after clear() (issued at quiescence: clear is not a concurrent
    // operation) by a thread that has no element of its own (the main thread) or by one that has
    int epochs = (int)sim::draw_range(1, 3, "epochs");
    bool clear_by_owner = sim::draw_bool("clear_by_owner");
    if (epochs > 1) { d.add(hx::fmt("epochs=%d clear() by a thread %s an element", epochs, clear_by_owner ? "with" : "without")); d.publish(); }
    std::vector<sim::event> go((size_t)epochs), all_done((size_t)epochs);
    int arrived = 0;
    std::vector<std::function<void()>> fns;
    for (int t = 0; t < nthreads; ++t) fns.push_back([&, t] {
        for (int e = 0; e < epochs; ++e) {
            go[(size_t)e].wait();
            worker();
            bool last = ++arrived == nthreads;
            if (last && clear_by_owner && e + 1 < epochs) ets->clear();      // this thread has an element (and a cached pointer to it)
            if (last) { arrived = 0; all_done[(size_t)e].signal(); }
        }
    });
    std::vector<int> ids;
    for (auto& f : fns) ids.push_back(sim::spawn(f, "user"));
    for (int e = 0; e < epochs; ++e) {
        go[(size_t)e].signal();
        all_done[(size_t)e].wait();
        if (e + 1 < epochs) {
            if (!clear_by_owner) {
                SIM_CHECK(ets->size() == (size_t)nthreads, "oracle:ets-count", "epoch %d: %zu elements for %d threads", e, ets->size(), nthreads);
                ets->clear();                                                 // the main thread never called local(): no element, no cached pointer
            }
            SIM_CHECK(ets->size() == 0 && ets->empty(), "oracle:ets-count", "%zu elements after clear()", ets->size());
            for (auto& kv : init_by_fiber) SIM_CHECK(kv.second == 1, "oracle:ets-init", "epoch %d: the initialiser ran %d times for fiber %d", e, kv.second, kv.first);
            addr.clear(); init_by_fiber.clear(); inits = 0;                   // every thread must get a fresh element from a fresh initialiser call
            sim::probe("ets:clear-between-epochs");
        }
    }
    for (int id : ids) sim::join(id);
    // threads have exited; new threads arrive under new ids and get fresh elements
    fns.clear();
    for (int t = 0; t < late; ++t) fns.push_back(worker);
    hx::run_fibers(fns);
    size_t expect = (size_t)(nthreads + late);
    for (auto& kv : init_by_fiber) SIM_CHECK(kv.second == 1, "oracle:ets-init", "the initialiser ran %d times for fiber %d", kv.second, kv.first);
    SIM_CHECK(ets->size() == expect && (size_t)inits == expect, "oracle:ets-count", "%zu elements / %d initialiser calls for %zu threads", ets->size(), inits, expect);
    std::set<const Val*> seen;
    for (auto it = ets->begin(); it != ets->end(); ++it) SIM_CHECK(seen.insert(&*it).second, "oracle:ets-visit", "iteration visits an element twice");
    SIM_CHECK(seen.size() == expect, "oracle:ets-visit", "iteration visits %zu elements, %zu exist", seen.size(), expect);
    for (auto& kv : addr) SIM_CHECK(seen.count(kv.second), "oracle:ets-visit", "element of fiber %d is not reached by iteration", kv.first);
    int sum = 0, n = 0; ets->combine_each([&](const Val& v) { sum += v.id; ++n; });
    SIM_CHECK(n == (int)expect && sum == (int)(expect * (expect - 1) / 2), "oracle:ets-visit", "combine_each visited %d elements (id sum %d), expected %zu", n, sum, expect);
    // iteration in every step style: a drawn walk of the random-access iterator (dereferenced after every move) against
    // index arithmetic over the order the plain ++ walk gave; a walk by "it += 1" must visit every element once as well
    {
        std::vector<const Val*> order;
        for (auto it = ets->begin(); it != ets->end(); ++it) order.push_back(&*it);
        long N = (long)order.size(), pos = 0;
        auto it = ets->begin();
        int moves = (int)sim::draw_range(0, 12, "ets_walk_moves");
        std::string walk;
        for (int m = 0; m < moves && N > 1; ++m) {
            SIM_CHECK(&*it == order[(size_t)pos], "oracle:ets-visit", "iterator walk [%s ]: position %ld dereferences to another thread's element", walk.c_str(), pos);
            int kind = (int)sim::draw(9, "ets_walk_kind");
            long fwd = N - 1 - pos, back = pos;
            long k = 1 + (long)sim::draw(3, "ets_walk_dist");
            switch (kind) {
            case 0: if (fwd >= 1) { ++it; pos += 1; walk += " ++"; } break;
            case 1: if (back >= 1) { --it; pos -= 1; walk += " --"; } break;
            case 2: if (fwd >= k) { it += k; pos += k; walk += hx::fmt(" +=%ld", k); } break;
            case 3: if (back >= k) { it -= k; pos -= k; walk += hx::fmt(" -=%ld", k); } break;
            case 4: if (fwd >= k) { it = it + k; pos += k; walk += hx::fmt(" it+%ld", k); } break;
            case 5: if (back >= k) { it = it - k; pos -= k; walk += hx::fmt(" it-%ld", k); } break;
            case 6: if (fwd >= k) { SIM_CHECK(&it[k] == order[(size_t)(pos + k)], "oracle:ets-visit", "iterator walk [%s ]: it[%ld] at position %ld is another thread's element", walk.c_str(), k, pos); walk += hx::fmt(" [%ld]", k); } break;
            case 7: if (fwd >= 1) { auto old = it++; SIM_CHECK(&*old == order[(size_t)pos], "oracle:ets-visit", "it++ returned an iterator to another element"); pos += 1; walk += " it++"; } break;
            default: if (fwd >= k) { std::advance(it, k); pos += k; walk += hx::fmt(" advance(%ld)", k); } else if (back >= k) { std::advance(it, -k); pos -= k; walk += hx::fmt(" advance(-%ld)", k); } break;
            }
            SIM_CHECK(&*it == order[(size_t)pos], "oracle:ets-visit", "iterator walk [%s ]: position %ld dereferences to another thread's element", walk.c_str(), pos);
            SIM_CHECK(it - ets->begin() == pos, "oracle:ets-visit", "iterator walk [%s ]: distance from begin() is %ld, expected %ld", walk.c_str(), (long)(it - ets->begin()), pos);
        }
        std::set<const Val*> by_step;
        long steps = 0;
        for (auto j = ets->begin(); j != ets->end(); j += 1) { SIM_CHECK(by_step.insert(&*j).second, "oracle:ets-visit", "a walk by `it += 1` visits an element twice"); SIM_CHECK(++steps <= N, "oracle:ets-visit", "a walk by `it += 1` does not end"); }
        SIM_CHECK((long)by_step.size() == N, "oracle:ets-visit", "a walk by `it += 1` visits %zu of %ld elements", by_step.size(), N);
        const auto& cets = *ets;
        long cn = 0; for (auto j = cets.begin(); j != cets.end(); ++j) { SIM_CHECK(&*j == order[(size_t)cn], "oracle:ets-visit", "const iteration differs from iteration at position %ld", cn); ++cn; }
        SIM_CHECK(cn == N, "oracle:ets-visit", "const iteration visits %ld of %ld elements", cn, N);
        long rn = 0; for (auto& v : ets->range()) { SIM_CHECK(&v == order[(size_t)rn], "oracle:ets-visit", "range() differs from iteration at position %ld", rn); ++rn; }
        SIM_CHECK(rn == N, "oracle:ets-visit", "range() visits %ld of %ld elements", rn, N);
    }
    delete ets;
}

void scen_combinable(hx::Desc& d) {
    int nthreads = (int)sim::draw_range(2, 8, "threads");
    d.add(hx::fmt("combinable threads=%d", nthreads)); d.publish();
    int inits = 0;
    tbb::combinable<long> c([&] { ++inits; sim::upoint(); return 100L; });
    std::vector<std::function<void()>> fns;
    for (int t = 0; t < nthreads; ++t) fns.push_back([&, t] { for (int i = 0; i < 3; ++i) { c.local() += t + 1; sim::upoint(); } });
    hx::run_fibers(fns);
    long total = c.combine([](long a, long b) { return a + b; });
    long expect = 100L * nthreads; for (int t = 0; t < nthreads; ++t) expect += 3L * (t + 1);
    SIM_CHECK(inits == nthreads, "oracle:ets-init", "combinable initialiser ran %d times for %d threads", inits, nthreads);
    SIM_CHECK(total == expect, "oracle:ets-visit", "combine() == %ld, expected %ld (an element was shared, lost or visited twice)", total, expect);
}
}  // namespace

SIM_SCENARIO(scen_c19, "c19", "C19", 6000000, 20000) {
    hx::Desc d;
    hx::draw_runtime_config(d);
    sim::g_cfg.tso = sim::draw_bool("tso");
    switch (sim::draw(5, "kind")) {
    case 0: case 1: scen_once(d); break;
    case 2: scen_ets<tbb::ets_no_key>(d, "ets_no_key"); break;
    case 3: scen_ets<tbb::ets_key_per_instance>(d, "ets_key_per_instance"); break;
    default: scen_combinable(d); break;
    }
}
