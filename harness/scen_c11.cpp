// C11 — concurrent_vector growth: disjoint contiguous index ranges tiling [0,size()), each element
// constructed exactly once with the requested value, addresses never change, grow_to_at_least waits for
// construction; after a throwing allocator / constructor the vector stays destructible.
#include "common.h"
#include "oneapi/tbb/concurrent_vector.h"

namespace {
struct VF {
    int throw_at = 0, alloc_fail_at = 0, ctors = 0, allocs = 0; bool armed = false;
    int live = 0; long live_bytes = 0;
    std::map<const void*, int> constructed;   // address -> number of constructions
};
VF* V = nullptr;
struct vec_throw : std::exception {};
constexpr uint32_t READY = 0x5EED5EEDu;
struct Elem {
    uint64_t value; uint32_t ready;
    void born(bool may_throw) {
        if (may_throw && V->armed && ++V->ctors == V->throw_at) { sim::fault_fired("throw-ctor"); throw vec_throw(); }
        sim::upoint();   // construction has an interior: another thread may look at this slot now
        int& c = V->constructed[this];
        SIM_CHECK(c == 0, "oracle:constructed-twice", "element at %p constructed a second time (two growth calls got overlapping ranges)", (void*)this);
        c = 1; V->live++; ready = READY;
    }
    Elem() : value(0), ready(0) { born(true); }
    explicit Elem(uint64_t v) : value(v), ready(0) { born(true); }
    Elem(const Elem& o) : value(o.value), ready(0) { born(true); }
    ~Elem() { ready = 0; V->live--; V->constructed.erase(this); }
};
template <class T> struct VAlloc {
    using value_type = T;
    VAlloc() = default;
    template <class U> VAlloc(const VAlloc<U>&) {}
    T* allocate(size_t n) {
        if (V->armed && ++V->allocs == V->alloc_fail_at) { sim::fault_fired("alloc"); throw std::bad_alloc(); }
        V->live_bytes += (long)(n * sizeof(T));
        return static_cast<T*>(::operator new(n * sizeof(T)));
    }
    void deallocate(T* p, size_t n) { V->live_bytes -= (long)(n * sizeof(T)); ::operator delete(p); }
    template <class U> bool operator==(const VAlloc<U>&) const { return true; }
    template <class U> bool operator!=(const VAlloc<U>&) const { return false; }
};
using Vec = tbb::concurrent_vector<Elem, VAlloc<Elem>>;
enum OK { PUSH, EMPLACE, GROW_BY, GROW_BY_VAL, GROW_TO };
const char* const kOp[] = {"push_back", "emplace_back", "grow_by", "grow_by(val)", "grow_to_at_least"};
struct Plan { OK k; int arg; };
struct Got { size_t b, e; uint64_t val; bool has_val; int thread; OK k; };

// Hang triage for the fault modes.  Tolerated (oneTBB on the pinned tree behaves like this): a growth call waiting
// for a *segment* that a failed peer never enabled, and grow_to_at_least waiting for anything.  Not tolerated: any
// other growth call spinning on the segment-table *pointer* after the long-table allocation failed — the library
// keeps a failure flag exactly so that these waiters throw instead.
struct Peek : Vec { const void* table_word() const { return &this->my_segment_table; } bool table_failed() const { return this->my_segment_table_allocation_failed.v; }   /* raw read: no schedule point inside the triage */ };
struct HangCtx { const Vec* v = nullptr; const void* table_word = nullptr; int nthreads = 0; int fid[8]; int op[8]; } g_hang;
bool c11_hang_triage(char* why, size_t n) {
    // (when the thread that owns the table extension threw before it got there, e.g. in an element constructor, the
    // flag is not set and the pinned tree waits for ever as well: tolerated)
    if (!static_cast<const Peek*>(g_hang.v)->table_failed()) return true;
    for (int t = 0; t < g_hang.nthreads; ++t) {
        if (g_hang.op[t] < 0 || g_hang.op[t] == GROW_TO || sim::fiber_done(g_hang.fid[t])) continue;
        if (sim::last_point_addr(g_hang.fid[t]) == g_hang.table_word) {
            snprintf(why, n, "T%d: %s neither returns nor throws: it spins on the segment-table pointer although the failed table allocation has been flagged", t, kOp[g_hang.op[t]]);
            return false;
        }
    }
    return true;
}
}

SIM_SCENARIO(scen_c11, "c11", "C11", 1500000, 6000) {
    hx::Desc d;
    VF vf; V = &vf;
    int nthreads = (int)sim::draw_range(2, 4, "threads");
    int mode = (int)sim::draw(5, "mode");   // 0..2 strict, 3 throwing ctor, 4 failing allocator
    if (mode == 3) vf.throw_at = (int)sim::draw_range(1, 20, "throw_at");
    if (mode == 4) vf.alloc_fail_at = (int)sim::draw_range(1, 5, "alloc_at");
    const char* mt = mode == 3 ? "throw" : mode == 4 ? "alloc" : "strict";
    const bool strict = mode < 3;
    sim::set_tag("mode=%s", mt);
    static const int prefills[] = {0, 0, 1, 2, 3, 7, 8, 15, 16, 31};
    int prefill = sim::draw_of(prefills, "prefill");
    int reserve = (int)sim::draw(3, "reserve") == 0 ? (int)sim::draw_range(1, 20, "reserve_n") : 0;
    d.add(hx::fmt("concurrent_vector mode=%s throw_at=%d alloc_fail_at=%d prefill=%d reserve=%d", mt, vf.throw_at, vf.alloc_fail_at, prefill, reserve));
    static const int deltas[] = {0, 1, 1, 2, 3, 4, 7, 8, 9, 15, 16, 17, 33};
    std::vector<std::vector<Plan>> plan(nthreads);
    for (int t = 0; t < nthreads; ++t) {
        int nops = (int)sim::draw_range(1, 6, "nops");
        std::string s = hx::fmt("T%d:", t);
        for (int i = 0; i < nops; ++i) {
            OK k = (OK)sim::draw(5, "op");
            int arg = (k == GROW_BY || k == GROW_BY_VAL) ? sim::draw_of(deltas, "delta") : k == GROW_TO ? sim::draw_of(deltas, "n") + (int)sim::draw(40, "n_add") : 0;
            plan[t].push_back({k, arg});
            s += (k == PUSH || k == EMPLACE) ? hx::fmt(" %s", kOp[k]) : hx::fmt(" %s(%d)", kOp[k], arg);
        }
        d.add(s);
    }
    d.publish();
    Vec* v = new Vec;
    if (reserve) v->reserve((size_t)reserve);
    for (int i = 0; i < prefill; ++i) v->push_back(Elem(7000 + (uint64_t)i));
    vf.armed = true;
    // in the fault modes the statement promises safety only (destructible, accesses work or throw): a concurrent
    // growth call that waits for a peer whose allocation/constructor threw may hang
    if (!strict) sim::set_hang_after_fault_ok(true);
    std::vector<Got> got;
    std::map<size_t, const Elem*> addr;     // sampled address of element i
    bool failed = false;
    auto sample = [&](size_t i) {
        const Elem* p = &(*v)[i];
        auto it = addr.find(i);
        if (it == addr.end()) addr[i] = p;
        else SIM_CHECK(it->second == p, "oracle:element-moved", "address of element %zu changed from %p to %p during growth", i, (const void*)it->second, (const void*)p);
    };
    g_hang = HangCtx(); g_hang.v = v; g_hang.table_word = static_cast<const Peek*>(v)->table_word(); g_hang.nthreads = nthreads;
    for (int t = 0; t < 8; ++t) { g_hang.fid[t] = -1; g_hang.op[t] = -1; }
    if (!strict) sim::set_hang_triage(c11_hang_triage);
    std::vector<std::function<void()>> fns;
    for (int t = 0; t < nthreads; ++t) {
        fns.push_back([&, t] {
            int seq = 0;
            g_hang.fid[t] = sim::self();
            struct OpDone { int t; ~OpDone() { g_hang.op[t] = -1; } } op_done{t};
            for (const Plan& p : plan[t]) {
                uint64_t val = (uint64_t)(t + 1) * 1000 + (uint64_t)(++seq);
                g_hang.op[t] = p.k;
                try {
                    switch (p.k) {
                    case PUSH: { Elem x(val); auto it = v->push_back(x); size_t i = (size_t)(it - v->begin()); got.push_back({i, i + 1, val, true, t, p.k}); break; }
                    case EMPLACE: { auto it = v->emplace_back(val); size_t i = (size_t)(it - v->begin()); got.push_back({i, i + 1, val, true, t, p.k}); break; }
                    case GROW_BY: { auto it = v->grow_by((size_t)p.arg); size_t i = (size_t)(it - v->begin()); got.push_back({i, i + (size_t)p.arg, 0, true, t, p.k}); break; }
                    case GROW_BY_VAL: { Elem x(val); auto it = v->grow_by((size_t)p.arg, x); size_t i = (size_t)(it - v->begin()); got.push_back({i, i + (size_t)p.arg, val, true, t, p.k}); break; }
                    case GROW_TO: {
                        v->grow_to_at_least((size_t)p.arg);
                        if (strict) {
                            SIM_CHECK(v->size() >= (size_t)p.arg, "oracle:grow-to-at-least", "size() == %zu after grow_to_at_least(%d)", v->size(), p.arg);
                            // returns only when every element below n is constructed
                            for (size_t i = 0; i < (size_t)p.arg; ++i)
                                SIM_CHECK((*v)[i].ready == READY, "oracle:grow-to-at-least", "grow_to_at_least(%d) returned but element %zu is not constructed yet", p.arg, i);
                        }
                        break;
                    }
                    }
                    // the elements this call created hold the requested value; sample some addresses
                    if (strict && !got.empty() && got.back().thread == t && p.k != GROW_TO) {
                        const Got g = got.back();   // by value: operator[] below contains schedule points
                        for (size_t i = g.b; i < g.e; ++i) {
                            SIM_CHECK((*v)[i].ready == READY && (*v)[i].value == g.val, "oracle:element-value", "%s by T%d returned [%zu,%zu): element %zu holds %llu, expected %llu", kOp[p.k], t, g.b, g.e, i,
                                      (unsigned long long)(*v)[i].value, (unsigned long long)g.val);
                            sample(i);
                        }
                    }
                    if (strict) for (auto& kv : addr) if (kv.first % 3 == (size_t)t % 3) sample(kv.first);
                } catch (vec_throw&) { failed = true; sim::set_hang_after_fault_ok(true); sim::probe("op-threw"); }
                catch (std::bad_alloc&) { failed = true; sim::set_hang_after_fault_ok(true); sim::probe("op-threw"); }
                catch (std::exception& e) { failed = true; sim::set_hang_after_fault_ok(true); sim::probe("op-threw-other"); (void)e; }
            }
        });
    }
    // observer: while the others grow the vector, every index below size() is backed by an allocated segment
    // (at(i) does not throw for i < size(), capacity() >= size()); in the fault modes at() may throw, but a traversal
    // of [begin(), end()) must stay inside allocated memory
    bool growers_done = false;
    std::vector<std::pair<size_t, const Elem*>> at_addr;     // what at(i) handed out while the vector grew
    int observer = sim::spawn([&] {
        uint64_t x = 88172645463325252ull;
        while (!growers_done) {
            size_t n = v->size(), cap = v->capacity();
            SIM_CHECK(cap >= n || !strict, "oracle:size", "size() == %zu exceeds capacity() == %zu during growth", n, cap);
            for (int k = 0; k < 3 && n; ++k) {
                x ^= x << 13; x ^= x >> 7; x ^= x << 17;
                size_t i = k == 0 ? n - 1 : (size_t)(x % n);
                try { const Elem& e = v->at(i); (void)e.value; }
                catch (std::exception& ex) {
                    if (strict) sim::fail("oracle:size-not-backed", "during growth size() was %zu but at(%zu) threw '%s': an index below size() has no allocated segment", n, i, ex.what());
                    sim::probe("at-threw-during-faulty-growth");
                }
            }
            // indices at and beyond size() may already be claimed by a growth call in flight: at() either throws or hands out
            // the element's final address, inside allocated memory (the load below must not fault)
            static const size_t ahead[] = {0, 1, 7, 33};
            for (size_t a : ahead) {
                size_t i = n + a;
                try { const Elem& e = v->at(i); volatile int r = *(const volatile int*)&e.ready; (void)r; if (at_addr.size() < 4000) at_addr.push_back({i, &e}); sim::probe("at-ahead-of-size-returned"); }
                catch (std::exception&) { sim::probe("at-ahead-of-size-threw"); }
            }
            sim::point(sim::K_YIELD, nullptr);
        }
    }, "observer");
    hx::run_fibers(fns);
    growers_done = true;
    sim::join(observer);
    for (auto& pa : at_addr) if (pa.first < v->size())
        SIM_CHECK(pa.second == &(*v)[pa.first], "oracle:address-moved", "during growth at(%zu) handed out %p, the element lives at %p", pa.first, (const void*)pa.second, (const void*)&(*v)[pa.first]);
    vf.armed = false;
    if (strict) {
        // returned ranges are pairwise disjoint, contiguous, and tile [prefill, size())
        std::vector<Got> g = got;
        std::sort(g.begin(), g.end(), [](const Got& a, const Got& b) { return a.b < b.b || (a.b == b.b && a.e < b.e); });
        size_t pos = (size_t)prefill;
        size_t gt_max = 0;
        for (auto& pl : plan) for (auto& p : pl) if (p.k == GROW_TO) gt_max = std::max(gt_max, (size_t)p.arg);
        for (auto& x : g) {
            if (x.b == x.e) continue;
            SIM_CHECK(x.b >= pos, "oracle:range-overlap", "index range [%zu,%zu) returned to thread %d overlaps an earlier range ending at %zu", x.b, x.e, x.thread, pos);
            // gaps may only be filled by grow_to_at_least (which returns no range)
            if (x.b > pos) SIM_CHECK(gt_max > pos, "oracle:range-gap", "indices [%zu,%zu) were handed to nobody", pos, x.b);
            pos = x.e;
        }
        SIM_CHECK(v->size() >= pos && v->size() <= std::max(pos, gt_max), "oracle:size", "size() == %zu but handed-out ranges end at %zu (grow_to_at_least max %zu)", v->size(), pos, gt_max);
        for (size_t i = 0; i < v->size(); ++i) {
            SIM_CHECK((*v)[i].ready == READY, "oracle:element-value", "element %zu below size() is not constructed at quiescence", i);
            if (i < (size_t)prefill) SIM_CHECK((*v)[i].value == 7000 + i, "oracle:element-value", "prefilled element %zu changed", i);
        }
        for (auto& kv : addr) SIM_CHECK(&(*v)[kv.first] == kv.second, "oracle:element-moved", "address of element %zu changed", kv.first);
    } else {
        // after a failure: later accesses work or throw, never touch unallocated memory (ASan); vector destructible
        size_t n = v->size();
        for (size_t i = 0; i < n && i < 80; ++i) {
            try { const Elem& e = v->at(i); (void)e.value; } catch (std::exception&) { sim::probe("at-threw-after-failure"); }
        }
        // a traversal of [begin(), end()) stays inside allocated segments (a hole left by the failed allocation bounds size())
        { size_t seen = 0; uint64_t acc = 0; for (auto it = v->begin(); it != v->end() && seen < 200; ++it, ++seen) acc += (*it).value; (void)acc; }
        for (size_t i = 0; i < (size_t)prefill && i < n; ++i) {
            try { SIM_CHECK(v->at(i).value == 7000 + i, "oracle:element-value", "[mode=%s] prefilled element %zu damaged by a failed growth", mt, i); } catch (std::exception&) {}
        }
    }
    delete v;
    if (strict) {
        SIM_CHECK(vf.live == 0, "oracle:element-balance", "%d elements alive after the vector was destroyed", vf.live);
        SIM_CHECK(vf.live_bytes == 0, "oracle:segment-balance", "%ld bytes of segments not returned", vf.live_bytes);
    }
    V = nullptr;
}
