// C12 — concurrent unordered / ordered associative containers: nothing lost or duplicated under
// concurrent insert / find / count / contains / traversal; unique containers have one winner per key;
// traversals see every element that was present before they began exactly once; ordered containers
// iterate in comparator order.
#include "common.h"
#include "oneapi/tbb/concurrent_unordered_map.h"
#include "oneapi/tbb/concurrent_unordered_set.h"
#include "oneapi/tbb/concurrent_map.h"
#include "oneapi/tbb/concurrent_set.h"

namespace {

int g_hash_kind = 0;
struct K { int k; int id; };
struct KHash { size_t operator()(const K& x) const { return g_hash_kind == 0 ? (size_t)x.k : g_hash_kind == 1 ? 42 : (size_t)x.k << 59 | (size_t)x.k * 0x10001; } };
struct KEq { bool operator()(const K& a, const K& b) const { return a.k == b.k; } };
struct KLess { bool operator()(const K& a, const K& b) const { return a.k < b.k; } };
struct IHash { size_t operator()(int k) const { return g_hash_kind == 0 ? (size_t)k : g_hash_kind == 1 ? 42 : (size_t)k << 59 | (size_t)k * 0x10001; } };

inline int key_of(const K& v) { return v.k; }
inline int id_of(const K& v) { return v.id; }
inline int key_of(const std::pair<const int, int>& v) { return v.first; }
inline int id_of(const std::pair<const int, int>& v) { return v.second; }
inline K make_val(const K*, int k, int id) { return K{k, id}; }
inline std::pair<const int, int> make_val(const std::pair<const int, int>*, int k, int id) { return {k, id}; }
inline K make_key(const K*, int k) { return K{k, -1}; }
inline int make_key(const int*, int k) { return k; }

enum OK { INSERT, EMPLACE, FIND, COUNT, CONTAINS, TRAVERSE, INSERT_NODE, EQUAL_RANGE, MERGE, NOPS };
const char* const kOp[] = {"insert", "emplace", "find", "count", "contains", "traverse", "insert(node)", "equal_range", "merge"};
struct Plan { OK k; int key; };
struct InsRec { int key, id; bool ok; int ret_id; uint64_t inv, res; };

template <class C> auto ins_ok(const std::pair<typename C::iterator, bool>& r) { return r; }

template <class C, bool Unique, bool Ordered>
void run_container(C& c, hx::Desc& d, const char* cname) {
    using V = typename C::value_type;
    using KeyT = typename C::key_type;
    int nthreads = (int)sim::draw_range(2, 4, "threads");
    int nkeys = (int)sim::draw_range(1, 10, "nkeys");
    static const int prefills[] = {0, 0, 1, 3, 7, 8, 15, 17, 33};
    int prefill = sim::draw_of(prefills, "prefill");
    d.add(hx::fmt("%s keys=%d prefill=%d hash=%d", cname, nkeys, prefill, g_hash_kind));
    std::vector<std::vector<Plan>> plan(nthreads);
    int total = 0;
    for (int t = 0; t < nthreads; ++t) {
        int nops = (int)sim::draw_range(1, 8, "nops");
        std::string s = hx::fmt("T%d:", t);
        for (int i = 0; i < nops && total < 24; ++i, ++total) {
            static const OK mix[] = {INSERT, INSERT, INSERT, EMPLACE, FIND, COUNT, CONTAINS, TRAVERSE, INSERT_NODE, INSERT_NODE, EQUAL_RANGE, EQUAL_RANGE, MERGE};
            OK k = mix[sim::draw(13, "op")];
            int key = (int)sim::draw((uint64_t)nkeys, "key") * 3;    // multiples of 3: bounds queries have gaps to probe
            plan[t].push_back({k, key});
            s += k == TRAVERSE ? " traverse" : k == MERGE ? " merge(private)" : hx::fmt(" %s(%d)", kOp[k], key);
        }
        d.add(s);
    }
    d.publish();
    std::vector<InsRec> ins;
    // history of the container before the concurrent part ("configurations"): filled directly, or filled elsewhere and
    // swapped in (sequentially) while this container has never held an element / was used and cleared
    int history = (int)sim::draw(4, "history");     // 0,1: direct; 2: swap into never-used; 3: swap into cleared
    d.add(hx::fmt("history=%s", history < 2 ? "direct" : history == 2 ? "swapped-into-never-used" : "swapped-into-cleared")); d.publish();
    {
        C other;
        C& fill = history >= 2 ? other : c;
        if (history == 3) { c.insert(make_val((const V*)nullptr, 5000, 5000)); c.clear(); }
        // prefill from a disjoint key range (forces bucket-table doublings / gives the skip list some height)
        for (int i = 0; i < prefill; ++i) {
            auto r = fill.insert(make_val((const V*)nullptr, 1000 + i, 900000 + i));
            ins.push_back({1000 + i, 900000 + i, r.second, id_of(*r.first), 0, 0});
        }
        if (history >= 2) { c.swap(other); SIM_CHECK(other.empty() && c.size() == (size_t)prefill, "oracle:swap", "after swap the container holds %zu elements, %d expected", c.size(), prefill); }
    }
    for (int i = 0; i < prefill; ++i) SIM_CHECK(c.find(make_key((const KeyT*)nullptr, 1000 + i)) != c.end(), "oracle:find-after-insert", "prefilled key %d cannot be found before the concurrent part (history=%d)", 1000 + i, history);
    auto check_traversal = [&](uint64_t t_begin, const std::vector<std::pair<int, int>>& seen, const char* who) {
        std::set<int> ids;
        for (size_t i = 0; i < seen.size(); ++i) {
            SIM_CHECK(ids.insert(seen[i].second).second, "oracle:traversal-duplicate", "%s: element id %d (key %d) appears twice in one traversal", who, seen[i].second, seen[i].first);
            if (Ordered && i) SIM_CHECK(seen[i - 1].first <= seen[i].first, "oracle:order", "%s: traversal not in comparator order: key %d before key %d", who, seen[i - 1].first, seen[i].first);
            if (Unique && i) SIM_CHECK(seen[i - 1].first != seen[i].first || !Ordered, "oracle:duplicate-key", "%s: two equivalent keys %d in a unique container", who, seen[i].first);
            bool known = false;
            for (auto& r : ins) if (r.id == seen[i].second && r.key == seen[i].first) known = true;
            // an element whose insert is still in flight is legitimately visible; it is recorded when its insert returns,
            // so "unknown" elements are only rejected at quiescence (see the final traversal)
            (void)known;
        }
        if (Unique) { std::set<int> keys; for (auto& p : seen) SIM_CHECK(keys.insert(p.first).second, "oracle:duplicate-key", "%s: key %d appears twice in a unique container", who, p.first); }
        else {
            // equivalent elements are contiguous
            std::map<int, size_t> last;
            for (size_t i = 0; i < seen.size(); ++i) { auto it = last.find(seen[i].first); if (it != last.end()) SIM_CHECK(it->second + 1 == i, "oracle:order", "%s: equivalent elements of key %d are not contiguous", who, seen[i].first); last[seen[i].first] = i; }
        }
        for (auto& r : ins) if (r.ok && r.res <= t_begin)
            SIM_CHECK(ids.count(r.id), "oracle:traversal-missed", "%s: element id %d (key %d), inserted before the traversal began, was not visited", who, r.id, r.key);
    };
    // node handles: every thread owns a private container of the same type (never shared); elements move from it into
    // the shared container through unsafe_extract + insert(node_type&&) or merge().  It holds, for every planned
    // insert(node) key, three equivalent elements (multi) / one (unique) plus a bigger key, so that an extracted node had
    // successors - also equivalent ones - where it came from.
    std::vector<std::unique_ptr<C>> priv((size_t)nthreads);
    struct Started { int key; uint64_t inv; int id; };
    std::vector<Started> started;          // inserts by invocation (upper bounds for count / equal_range)
    for (int t = 0; t < nthreads; ++t) {
        priv[(size_t)t].reset(new C);
        int pid = (t + 1) * 100000;
        for (const Plan& p : plan[t]) if (p.k == INSERT_NODE || p.k == MERGE) {
            int key = p.k == MERGE ? p.key + 1 : p.key;      // merge brings keys of its own (k+1: between the multiples of 3) and shared ones
            for (int e = 0; e < (Unique ? 1 : 3); ++e) priv[(size_t)t]->insert(make_val((const V*)nullptr, key, ++pid));
            if (p.k == MERGE) priv[(size_t)t]->insert(make_val((const V*)nullptr, p.key, ++pid));
            priv[(size_t)t]->insert(make_val((const V*)nullptr, key + 40, ++pid));
        }
    }
    auto bounds = [&](int key, uint64_t inv, int& lo, int& hi) {
        lo = 0; hi = 0;
        for (auto& r : ins) if (r.key == key && r.ok && r.res <= inv) ++lo;
        for (auto& st : started) if (st.key == key) ++hi;       // everything invoked so far (prefill keys are disjoint)
    };
    std::vector<std::function<void()>> fns;
    for (int t = 0; t < nthreads; ++t) {
        fns.push_back([&, t] {
            int seq = 0;
            C& src = *priv[(size_t)t];
            for (const Plan& p : plan[t]) {
                int id = (t + 1) * 1000 + (++seq);
                sim::upoint();
                uint64_t inv = sim::step();
                switch (p.k) {
                case INSERT_NODE: {
                    auto it = src.find(make_key((const KeyT*)nullptr, p.key));
                    if (it == src.end()) break;
                    int nid = id_of(*it);
                    auto nh = src.unsafe_extract(it);
                    SIM_CHECK(!nh.empty(), "oracle:wrong-element", "unsafe_extract returned an empty node handle");
                    started.push_back({p.key, inv, nid});
                    auto r = c.insert(std::move(nh));
                    uint64_t res = sim::step();
                    SIM_CHECK(key_of(*r.first) == p.key, "oracle:wrong-element", "insert(node %d) returned an iterator to key %d", p.key, key_of(*r.first));
                    if (r.second) SIM_CHECK(id_of(*r.first) == nid && nh.empty(), "oracle:wrong-element", "successful insert(node) returned an iterator to another element, or kept the node");
                    else SIM_CHECK(!nh.empty(), "oracle:wrong-element", "failed insert(node) did not leave the node with the caller");
                    if (!Unique) SIM_CHECK(r.second, "oracle:insert-result", "insert(node) into a multi container reported failure");
                    ins.push_back({p.key, nid, r.second, id_of(*r.first), inv, res});
                    break;
                }
                case MERGE: {
                    std::vector<std::pair<int, int>> before;
                    for (auto it = src.begin(); it != src.end(); ++it) { before.push_back({key_of(*it), id_of(*it)}); started.push_back({key_of(*it), inv, id_of(*it)}); }
                    c.merge(src);
                    uint64_t res = sim::step();
                    std::set<int> left; for (auto it = src.begin(); it != src.end(); ++it) left.insert(id_of(*it));
                    if (!Unique) SIM_CHECK(left.empty(), "oracle:insert-result", "merge into a multi container left %zu elements behind", left.size());
                    for (auto& b : before) {
                        bool moved = !left.count(b.second);
                        int holder = b.second;
                        if (!moved) { auto f = c.find(make_key((const KeyT*)nullptr, b.first)); SIM_CHECK(f != c.end(), "oracle:insert-result", "merge left key %d behind although the target does not hold it", b.first); holder = id_of(*f); }
                        ins.push_back({b.first, b.second, moved, holder, inv, res});
                    }
                    break;
                }
                case EQUAL_RANGE: {
                    KeyT key = make_key((const KeyT*)nullptr, p.key);
                    auto er = c.equal_range(key);
                    // What is NOT demanded: an exact count, or only equivalent keys - the range is computed once and walked
                    // later, and concurrent inserts may land inside it (count() of the multi containers is a distance over such a
                    // live range).  Demanded: the walk ends, stays inside this container, and every element it meets is one that
                    // somebody has at least begun to insert here; everything inserted before the call is in the range.
                    int n = 0, nk = 0;
                    for (auto it = er.first; it != er.second; ++it) {
                        SIM_CHECK(it != c.end(), "oracle:foreign-element", "equal_range(%d): the range runs past end() of the container", p.key);
                        int eid = id_of(*it); bool offered = eid >= 900000 && eid < 900000 + 64;     // prefill
                        for (auto& st : started) if (st.id == eid) offered = true;
                        SIM_CHECK(offered, "oracle:foreign-element", "equal_range(%d) leads to element id %d (key %d) that nobody has inserted into this container (it lives in a thread's private container)", p.key, eid, key_of(*it));
                        if (key_of(*it) == p.key) ++nk;
                        SIM_CHECK(++n < 200, "oracle:foreign-element", "equal_range(%d) does not end", p.key);
                    }
                    int lo, hi; bounds(p.key, inv, lo, hi); if (Unique) lo = lo ? 1 : 0;
                    SIM_CHECK(nk >= lo, "oracle:find-after-insert", "equal_range(%d) holds %d elements of that key; %d had been inserted before it started", p.key, nk, lo);
                    break;
                }
                case INSERT: case EMPLACE: {
                    started.push_back({p.key, inv, id});
                    std::pair<typename C::iterator, bool> r = p.k == INSERT ? c.insert(make_val((const V*)nullptr, p.key, id)) : c.emplace(make_val((const V*)nullptr, p.key, id));
                    uint64_t res = sim::step();
                    SIM_CHECK(key_of(*r.first) == p.key, "oracle:wrong-element", "insert(%d) returned an iterator to key %d", p.key, key_of(*r.first));
                    if (r.second) SIM_CHECK(id_of(*r.first) == id, "oracle:wrong-element", "successful insert returned an iterator to another element");
                    if (!Unique) SIM_CHECK(r.second, "oracle:insert-result", "insert into a multi container reported failure");
                    ins.push_back({p.key, id, r.second, id_of(*r.first), inv, res});
                    break;
                }
                case FIND: case COUNT: case CONTAINS: {
                    KeyT key = make_key((const KeyT*)nullptr, p.key);
                    size_t cnt = p.k == COUNT ? c.count(key) : 0;
                    bool found = p.k == FIND ? c.find(key) != c.end() : p.k == COUNT ? cnt != 0 : c.contains(key);
                    if (p.k == COUNT) { int lo, hi; bounds(p.key, inv, lo, hi); if (Unique) lo = lo ? 1 : 0;     // no upper bound: see equal_range
                        SIM_CHECK((int)cnt >= lo, "oracle:find-after-insert", "count(%d) == %zu; %d elements of that key had been inserted before it started", p.key, cnt, lo); }
                    bool must = false;
                    for (auto& r : ins) if (r.key == p.key && r.ok && r.res <= inv) must = true;   // an insert of this key returned before we started
                    if (must) SIM_CHECK(found, "oracle:find-after-insert", "%s(%d) failed although an insert of that key had returned before it started", kOp[p.k], p.key);
                    if (found) {
                        bool any = false;   // some insert of that key was at least invoked
                        for (auto& r : ins) if (r.key == p.key) any = true;
                        (void)any;
                    }
                    break;
                }
                case TRAVERSE: {
                    std::vector<std::pair<int, int>> seen;
                    for (auto it = c.begin(); it != c.end(); ++it) { seen.push_back({key_of(*it), id_of(*it)}); sim::upoint(); SIM_CHECK(seen.size() < 400, "oracle:traversal-duplicate", "traversal does not terminate"); }
                    check_traversal(inv, seen, "concurrent traversal");
                    break;
                }
                default: break;
                }
            }
        });
    }
    hx::run_fibers(fns);
    // quiescent checks
    std::vector<std::pair<int, int>> seen;
    for (auto it = c.begin(); it != c.end(); ++it) seen.push_back({key_of(*it), id_of(*it)});
    check_traversal(sim::step(), seen, "final traversal");
    std::set<int> ok_ids; std::map<int, int> winners, attempts;
    for (auto& r : ins) { attempts[r.key]++; if (r.ok) { ok_ids.insert(r.id); winners[r.key]++; } }
    SIM_CHECK(seen.size() == ok_ids.size(), "oracle:contents", "container holds %zu elements, %zu successful inserts", seen.size(), ok_ids.size());
    for (auto& p : seen) SIM_CHECK(ok_ids.count(p.second), "oracle:contents", "container holds element id %d (key %d) that no successful insert created", p.second, p.first);
    SIM_CHECK(c.size() == ok_ids.size(), "oracle:contents", "size() == %zu, %zu successful inserts", (size_t)c.size(), ok_ids.size());
    if (Unique) {
        for (auto& a : attempts) SIM_CHECK(winners[a.first] == 1, "oracle:one-winner", "%d inserts of absent key %d reported success (expected exactly 1 of %d)", winners[a.first], a.first, a.second);
        for (auto& r : ins) if (!r.ok) {
            int win = -1; for (auto& w : ins) if (w.ok && w.key == r.key) win = w.id;
            SIM_CHECK(r.ret_id == win, "oracle:wrong-element", "a losing insert of key %d returned an iterator to element %d, the winner is %d", r.key, r.ret_id, win);
        }
    }
    for (auto& a : attempts) {
        KeyT key = make_key((const KeyT*)nullptr, a.first);
        SIM_CHECK(c.find(key) != c.end() && c.contains(key), "oracle:contents", "key %d not reachable at quiescence", a.first);
        SIM_CHECK((int)c.count(key) == winners[a.first], "oracle:contents", "count(%d) == %zu, expected %d", a.first, (size_t)c.count(key), winners[a.first]);
        auto er = c.equal_range(key);
        int n = 0; for (auto it = er.first; it != er.second; ++it) { SIM_CHECK(key_of(*it) == a.first, "oracle:order", "equal_range(%d) contains key %d", a.first, key_of(*it)); ++n; }
        SIM_CHECK(n == winners[a.first], "oracle:contents", "equal_range(%d) has %d elements, expected %d", a.first, n, winners[a.first]);
    }
}

template <class C, bool Unique> void ordered_extra(C& c, int probe) {
    using KeyT = typename C::key_type;
    KeyT key = make_key((const KeyT*)nullptr, probe);
    auto lb = c.lower_bound(key), ub = c.upper_bound(key);
    if (lb != c.end()) SIM_CHECK(key_of(*lb) >= probe, "oracle:order", "lower_bound(%d) -> key %d", probe, key_of(*lb));
    if (ub != c.end()) SIM_CHECK(key_of(*ub) > probe, "oracle:order", "upper_bound(%d) -> key %d", probe, key_of(*ub));
    for (auto it = c.begin(); it != lb; ++it) SIM_CHECK(key_of(*it) < probe, "oracle:order", "element with key %d before lower_bound(%d)", key_of(*it), probe);
}

}  // namespace

SIM_SCENARIO(scen_c12, "c12", "C12", 1500000, 6000) {
    hx::Desc d;
    g_hash_kind = (int)sim::draw(3, "hash");
    int type = (int)sim::draw(8, "container");
    size_t nb = (size_t)sim::draw_range(1, 2, "buckets");
    int probe = (int)sim::draw(30, "probe");
    switch (type) {
    case 0: { tbb::concurrent_unordered_map<int, int, IHash> c(nb); run_container<decltype(c), true, false>(c, d, "concurrent_unordered_map"); break; }
    case 1: { tbb::concurrent_unordered_multimap<int, int, IHash> c(nb); run_container<decltype(c), false, false>(c, d, "concurrent_unordered_multimap"); break; }
    case 2: { tbb::concurrent_unordered_set<K, KHash, KEq> c(nb); run_container<decltype(c), true, false>(c, d, "concurrent_unordered_set"); break; }
    case 3: { tbb::concurrent_unordered_multiset<K, KHash, KEq> c(nb); run_container<decltype(c), false, false>(c, d, "concurrent_unordered_multiset"); break; }
    case 4: { tbb::concurrent_map<int, int> c; run_container<decltype(c), true, true>(c, d, "concurrent_map"); ordered_extra<decltype(c), true>(c, probe); break; }
    case 5: { tbb::concurrent_multimap<int, int> c; run_container<decltype(c), false, true>(c, d, "concurrent_multimap"); ordered_extra<decltype(c), false>(c, probe); break; }
    case 6: { tbb::concurrent_set<K, KLess> c; run_container<decltype(c), true, true>(c, d, "concurrent_set"); ordered_extra<decltype(c), true>(c, probe); break; }
    default: { tbb::concurrent_multiset<K, KLess> c; run_container<decltype(c), false, true>(c, d, "concurrent_multiset"); ordered_extra<decltype(c), false>(c, probe); break; }
    }
}
