// C01 (critical task stream) — the tasks of flow-graph nodes that have a priority are submitted as critical tasks
// (arena's critical task stream, popped by priority lanes); under this_task_arena::isolate the waiting thread uses the
// isolation-aware pop of that stream.  Messages are put by task_group tasks that workers steal, while the caller
// waits; every (node, message) body must run exactly once and graph::wait_for_all must cover all of them.
#include "rt_common.h"
#include "oneapi/tbb/flow_graph.h"

SIM_SCENARIO(scen_c01c, "c01c", "C01", 4000000, 20000) {
    using namespace tbb::flow;
    hx::Desc d;
    hx::Units units;
    static const int Ps[] = {2, 3, 4, 6};
    sim::g_cfg.P = sim::draw_of(Ps, "P");
    static const int knobs[] = {-1, 0, 1, 3};
    sim::g_cfg.spin_knob = sim::draw_of(knobs, "spin_knob");
    int maxc = (int)sim::draw_range(2, 4, "maxc"), rounds = (int)sim::draw_range(1, 3, "rounds");
    bool iso = sim::draw(4, "isolate") != 0, chain = sim::draw_bool("chain"), serial2 = sim::draw_bool("serial2");
    int prio1 = (int)sim::draw_range(1, 3, "prio1"), prio2 = (int)sim::draw_range(0, 3, "prio2");   // 0: no priority (ordinary spawn)
    int nprod = (int)sim::draw_range(1, 2, "producers"), nmsg = (int)sim::draw_range(1, 8, "messages");
    static const int ptsv[] = {0, 1, 4, 12};
    int pts = sim::draw_of(ptsv, "points"), jitter = (int)sim::draw(6, "jitter");
    d.add(hx::fmt("critical-stream P=%d spin_knob=%d arena(%d) isolate=%d rounds=%d node1(prio %d)%s node2(prio %d,%s) producers=%d messages=%d points=%d jitter=%d", sim::g_cfg.P, sim::g_cfg.spin_knob,
                  maxc, (int)iso, rounds, prio1, chain ? " ->" : " ||", prio2, serial2 ? "serial" : "unlimited", nprod, nmsg, pts, jitter));
    d.publish();
    tbb::task_arena arena(maxc);
    auto work = [&] {
        graph g;
        std::map<int, int> id1, id2;      // message -> unit
        auto b1 = [&](int m) { units.run(id1[m], pts); return m; };
        auto b2 = [&](int m) { units.run(id2[m], pts); return m; };
        function_node<int, int> n1(g, unlimited, b1, node_priority_t(prio1));
        std::unique_ptr<function_node<int, int>> n2;
        if (prio2) n2.reset(new function_node<int, int>(g, serial2 ? (size_t)serial : (size_t)unlimited, b2, node_priority_t(prio2)));
        else n2.reset(new function_node<int, int>(g, serial2 ? (size_t)serial : (size_t)unlimited, b2));
        if (chain) make_edge(n1, *n2);
        for (int r = 0; r < rounds; ++r) {
            std::vector<int> all;
            for (int m = r * 100; m < r * 100 + nmsg; ++m) { id1[m] = units.add(); id2[m] = units.add(); all.push_back(id1[m]); all.push_back(id2[m]); }
            tbb::task_group tg;
            for (int p = 0; p < nprod; ++p) tg.run([&, p, r] {
                for (int m = r * 100 + p; m < r * 100 + nmsg; m += nprod) {
                    for (int j = 0; j < jitter; ++j) sim::upoint();
                    n1.try_put(m);
                    if (!chain) n2->try_put(m);
                }
            });
            tg.wait();
            g.wait_for_all();
            units.check_done(all, "graph::wait_for_all");
        }
    };
    arena.execute([&] { if (iso) tbb::this_task_arena::isolate(work); else work(); });
    for (size_t i = 0; i < units.u.size(); ++i)
        SIM_CHECK(units.u[i].started == 1 && units.u[i].finished == 1, "oracle:ran-twice", "unit %zu started=%d finished=%d", i, units.u[i].started, units.u[i].finished);
}
