// C14 — flow graph: every accepted message is processed exactly once by each node on its path, node
// concurrency limits hold, rejected messages are kept by buffering senders (or reported to the external
// putter), nothing is lost or duplicated; wait_for_all means idle; nothing starts after cancel.
#include "rt_common.h"
#include "oneapi/tbb/flow_graph.h"

namespace {
using namespace tbb::flow;

struct NodeStat { int limit = 0; int running = 0, max_running = 0; std::map<int, int> processed; int bodies = 0; };
struct World {
    std::vector<NodeStat> ns;
    std::map<int, int> sunk;          // message id -> deliveries at the sink(s)
    int live = 0;
    bool idle_declared = false;       // set between wait_for_all() return and the next external put
    bool cancelled = false;
    int started_after_cancel = 0;
    int points = 0;
};
World* W = nullptr;

void enter(int node, int msg) {
    World& w = *W; NodeStat& s = w.ns[(size_t)node];
    SIM_CHECK(!w.idle_declared, "oracle:wait-for-all", "a body of node %d started (message %d) after wait_for_all() had returned and before any new put", node, msg);
    s.running++; w.live++; s.bodies++;
    if (s.running > s.max_running) s.max_running = s.running;
    if (s.limit > 0) SIM_CHECK(s.running <= s.limit, "oracle:node-concurrency", "node %d runs %d body invocations at once, its concurrency limit is %d", node, s.running, s.limit);
    if (msg >= 0) { int& c = s.processed[msg]; ++c; SIM_CHECK(c == 1, "oracle:message-twice", "node %d processed message %d %d times", node, msg, c); }
    for (int i = 0; i < w.points; ++i) sim::upoint();
}
void leave(int node) { W->ns[(size_t)node].running--; W->live--; }

size_t conc_of(int c) { return c == 0 ? unlimited : (size_t)c; }
}

SIM_SCENARIO(scen_c14, "c14", "C14", 6000000, 30000) {
    hx::Desc d;
    hx::draw_runtime_config(d);
    World world; W = &world;
    int topo = (int)sim::draw(9, "topology");
    int nputters = (int)sim::draw_range(1, 3, "putters");
    int nmsg = (int)sim::draw_range(1, 12, "messages");
    int c1 = (int)sim::draw(3, "conc1"), c2 = (int)sim::draw(3, "conc2");      // 0 unlimited, 1 serial, 2
    bool rej1 = sim::draw_bool("rejecting1");
    bool lw = sim::draw(4, "lightweight") == 0;
    static const int ptsv[] = {0, 2, 8, 25};
    world.points = sim::draw_of(ptsv, "points");
    bool do_cancel = sim::draw(6, "cancel") == 0;
    world.ns.resize(6);
    static const char* const tn[] = {"chain", "broadcast+join", "buffer->rejecting", "input+limiter-feedback", "multifunction-split", "continue-fanin", "async", "buffer->{limiter,rejecting}", "two-buffers->rejecting+outside-get"};
    d.add(hx::fmt("flow graph topology=%s putters=%d messages=%d conc=(%d,%d) rejecting1=%d lightweight=%d points=%d cancel=%d", tn[topo], nputters, nmsg, c1, c2, (int)rej1, (int)lw, world.points, (int)do_cancel));
    d.publish();
    graph g;
    int accepted = 0, rejected = 0;
    std::vector<int> accepted_ids;
    auto sink_body = [&](int node) { return [&, node](int m) -> continue_msg { enter(node, m); world.sunk[m]++; leave(node); return continue_msg(); }; };
    auto put_all = [&](receiver<int>& target, bool may_reject) {
        std::vector<std::function<void()>> fns;
        for (int p = 0; p < nputters; ++p) fns.push_back([&, p] {
            for (int m = p; m < nmsg; m += nputters) {
                sim::upoint();
                world.idle_declared = false;
                bool ok = target.try_put(m);
                if (ok) { ++accepted; accepted_ids.push_back(m); } else { ++rejected; SIM_CHECK(may_reject, "oracle:unexpected-reject", "try_put(%d) was rejected by a node that never rejects", m); }
            }
        });
        if (do_cancel) fns.push_back([&] { for (int i = 0; i < 15; ++i) sim::upoint(); sim::fault_fired("cancel"); world.cancelled = true; g.cancel(); });
        hx::run_fibers(fns);
    };
    auto finish = [&](bool conserve, int sink_node) {
        g.wait_for_all();
        world.idle_declared = true;
        SIM_CHECK(world.live == 0, "oracle:wait-for-all", "wait_for_all() returned while %d node bodies are still running", world.live);
        for (int i = 0; i < 25; ++i) sim::upoint();      // a late body would trip the idle check
        if (conserve && !do_cancel) {
            for (int m : accepted_ids) SIM_CHECK(world.sunk[m] == 1, "oracle:message-lost", "accepted message %d reached the sink %d times (node %d)", m, world.sunk[m], sink_node);
            for (auto& kv : world.sunk) SIM_CHECK(kv.second == 1, "oracle:message-twice", "message %d reached the sink %d times", kv.first, kv.second);
        }
        for (auto& kv : world.sunk) SIM_CHECK(std::find(accepted_ids.begin(), accepted_ids.end(), kv.first) != accepted_ids.end() || topo == 3, "oracle:message-invented", "message %d reached the sink but its try_put returned false", kv.first);
    };
    // reuse of the graph after it went idle: optionally a late cancel() on the idle graph, then graph::reset(), then a
    // second round of puts that must be processed completely (nothing is cancelled in that round)
    int reuse = (int)sim::draw(4, "reuse");      // 0,1: none; 2: reset and reuse; 3: late cancel on the idle graph, reset, reuse
    auto second_round = [&](receiver<int>& target, bool may_reject, int sink_node) {
        if (reuse < 2) return;
        if (reuse == 3) { sim::fault_fired("cancel"); g.cancel(); }
        g.reset();
        SIM_CHECK(!g.is_cancelled(), "oracle:not-reusable", "graph::is_cancelled() is true right after graph::reset()");
        world.sunk.clear(); for (auto& n : world.ns) { n.processed.clear(); n.bodies = 0; }
        accepted_ids.clear(); accepted = rejected = 0; world.idle_declared = false; world.cancelled = false; do_cancel = false;
        put_all(target, may_reject);
        finish(true, sink_node);
        SIM_CHECK(!g.is_cancelled(), "oracle:not-reusable", "graph::is_cancelled() after a run of the reset graph that nobody cancelled");
        sim::probe(reuse == 3 ? "graph:reuse-after-late-cancel" : "graph:reuse-after-reset");
    };
    d.add(hx::fmt("reuse=%s", reuse < 2 ? "no" : reuse == 2 ? "reset" : "late-cancel+reset")); d.publish();
    switch (topo) {
    case 0: {   // chain F1 -> F2 -> sink
        world.ns[0].limit = c1; world.ns[1].limit = c2; world.ns[2].limit = 1;
        auto b0 = [&](int m) noexcept { enter(0, m); leave(0); return m; };      // noexcept: otherwise oneTBB ignores the lightweight policy
        auto b1 = [&](int m) { enter(1, m); leave(1); return m; };
        function_node<int, int, queueing> f2(g, conc_of(c2), b1);
        function_node<int, continue_msg, queueing> sink(g, serial, sink_body(2));
        if (rej1) {
            function_node<int, int, rejecting> f1(g, conc_of(c1), b0); make_edge(f1, f2); make_edge(f2, sink);
            put_all(f1, c1 != 0); finish(true, 2); second_round(f1, c1 != 0, 2);
        } else if (lw) {
            function_node<int, int, queueing_lightweight> f1(g, conc_of(c1), b0); make_edge(f1, f2); make_edge(f2, sink);
            put_all(f1, false); finish(true, 2); second_round(f1, false, 2);
        } else {
            function_node<int, int, queueing> f1(g, conc_of(c1), b0); make_edge(f1, f2); make_edge(f2, sink);
            put_all(f1, false); finish(true, 2); second_round(f1, false, 2);
        }
        break;
    }
    case 1: {   // broadcast -> {F1, F2} -> join(queueing) -> sink of tuples
        world.ns[0].limit = c1; world.ns[1].limit = c2; world.ns[2].limit = 1;
        broadcast_node<int> bc(g);
        function_node<int, int, queueing> f1(g, conc_of(c1), [&](int m) { enter(0, m); leave(0); return m; });
        function_node<int, int, queueing> f2(g, conc_of(c2), [&](int m) { enter(1, m); leave(1); return m + 1000; });
        join_node<std::tuple<int, int>, queueing> j(g);
        int tuples = 0;
        function_node<std::tuple<int, int>, continue_msg, queueing> sink(g, serial, [&](const std::tuple<int, int>& t) -> continue_msg {
            enter(2, -1); ++tuples; world.sunk[std::get<0>(t)]++;
            SIM_CHECK(std::get<1>(t) >= 1000, "oracle:join-tuple", "tuple component from the wrong port");
            leave(2); return continue_msg(); });
        make_edge(bc, f1); make_edge(bc, f2); make_edge(f1, input_port<0>(j)); make_edge(f2, input_port<1>(j)); make_edge(j, sink);
        put_all(bc, false);
        finish(false, 2);
        if (!do_cancel) {
            SIM_CHECK(tuples == accepted, "oracle:message-lost", "%d tuples emitted for %d accepted messages", tuples, accepted);
            for (int m : accepted_ids) SIM_CHECK(world.ns[0].processed[m] == 1 && world.ns[1].processed[m] == 1, "oracle:message-lost", "broadcast message %d processed %d / %d times by the two successors", m, world.ns[0].processed[m], world.ns[1].processed[m]);
        }
        break;
    }
    case 2: {   // buffering sender -> rejecting serial node: a rejected message is kept and offered again
        world.ns[0].limit = 1; world.ns[1].limit = 1;
        bool use_queue = sim::draw_bool("queue");
        function_node<int, int, rejecting> f(g, serial, [&](int m) { enter(0, m); leave(0); return m; });
        function_node<int, continue_msg, queueing> sink(g, serial, sink_body(1));
        make_edge(f, sink);
        if (use_queue) { queue_node<int> q(g); make_edge(q, f); put_all(q, false); finish(true, 1); second_round(q, false, 1); }
        else { buffer_node<int> q(g); make_edge(q, f); put_all(q, false); finish(true, 1); second_round(q, false, 1); }
        break;
    }
    case 3: {   // input_node -> limiter(threshold) -> slow F -> sink, completion feeds the limiter's decrement port
        int threshold = (int)sim::draw_range(1, 3, "threshold");
        world.ns[0].limit = c1; world.ns[1].limit = 1;
        int produced = 0, in_flight = 0, max_in_flight = 0;
        input_node<int> src(g, [&](tbb::flow_control& fc) -> int { if (produced >= nmsg) { fc.stop(); return 0; } return produced++; });
        limiter_node<int> lim(g, (size_t)threshold);
        function_node<int, int, queueing> f(g, conc_of(c1), [&](int m) { ++in_flight; if (in_flight > max_in_flight) max_in_flight = in_flight; enter(0, m); leave(0); return m; });
        function_node<int, continue_msg, queueing> sink(g, serial, [&](int m) -> continue_msg { enter(1, m); world.sunk[m]++; --in_flight; leave(1); return continue_msg(); });
        make_edge(src, lim); make_edge(lim, f); make_edge(f, sink); make_edge(sink, lim.decrementer());
        world.idle_declared = false;
        src.activate();
        if (do_cancel) { for (int i = 0; i < 15; ++i) sim::upoint(); world.cancelled = true; g.cancel(); }
        finish(false, 1);
        SIM_CHECK(max_in_flight <= threshold, "oracle:limiter", "%d messages were forwarded by limiter_node without a decrement, threshold is %d", max_in_flight, threshold);
        if (!do_cancel) { SIM_CHECK(produced == nmsg, "oracle:message-lost", "input_node produced %d of %d", produced, nmsg);
            for (int m = 0; m < nmsg; ++m) SIM_CHECK(world.sunk[m] == 1, "oracle:message-lost", "message %d of the input_node reached the sink %d times", m, world.sunk[m]); }
        break;
    }
    case 4: {   // multifunction_node routes by parity to two sinks
        world.ns[0].limit = c1; world.ns[1].limit = 1; world.ns[2].limit = 1;
        using MF = multifunction_node<int, std::tuple<int, int>>;
        MF mf(g, conc_of(c1), [&](const int& m, MF::output_ports_type& ports) { enter(0, m); if (m % 2 == 0) std::get<0>(ports).try_put(m); else std::get<1>(ports).try_put(m); leave(0); });
        function_node<int, continue_msg, queueing> s0(g, serial, [&](int m) -> continue_msg { enter(1, m); SIM_CHECK(m % 2 == 0, "oracle:routing", "odd message %d on port 0", m); world.sunk[m]++; leave(1); return continue_msg(); });
        function_node<int, continue_msg, queueing> s1(g, serial, [&](int m) -> continue_msg { enter(2, m); SIM_CHECK(m % 2 == 1, "oracle:routing", "even message %d on port 1", m); world.sunk[m]++; leave(2); return continue_msg(); });
        make_edge(output_port<0>(mf), s0); make_edge(output_port<1>(mf), s1);
        put_all(mf, false); finish(true, 1); second_round(mf, false, 1);
        break;
    }
    case 5: if (sim::draw(3, "dynamic_edge") == 0) {
        // an edge into a continue_node is made while its new predecessor already sends: the message is either not seen at
        // all (no edge yet) or counted as one of TWO predecessors; the node must not fire before its other predecessor
        // has signalled, and after one more signal from each it has fired exactly once
        world.ns[0].limit = 0; world.ns[1].limit = 0; world.ns[2].limit = 0;
        int fired = 0, gap = (int)sim::draw(12, "edge_gap");
        broadcast_node<continue_msg> p1(g), p2(g);
        continue_node<continue_msg> c(g, [&](const continue_msg&) { enter(2, -1); ++fired; leave(2); return continue_msg(); });
        make_edge(p1, c);
        d.add(hx::fmt("continue_node: second predecessor connected while it sends (gap %d)", gap)); d.publish();
        std::vector<std::function<void()>> fns;
        fns.push_back([&] { for (int i = 0; i < gap; ++i) sim::upoint(); make_edge(p2, c); });
        fns.push_back([&] { for (int i = 0; i < 6; ++i) sim::upoint(); world.idle_declared = false; p2.try_put(continue_msg()); });
        hx::run_fibers(fns);
        g.wait_for_all();
        SIM_CHECK(fired == 0, "oracle:continue-node", "a continue_node fired %d time(s) on the message of a predecessor that was being connected, before its other predecessor had signalled", fired);
        world.idle_declared = false;
        p1.try_put(continue_msg()); p2.try_put(continue_msg());
        g.wait_for_all(); world.idle_declared = true;
        SIM_CHECK(fired == 1, "oracle:continue-node", "a continue_node with two predecessors fired %d times after 1 signal of the first and 2 of the second (connected while sending)", fired);
        break;
    } else {   // continue_node with two predecessors fires once per pair of signals
        world.ns[0].limit = 0; world.ns[1].limit = 0; world.ns[2].limit = 0;
        broadcast_node<continue_msg> start(g);
        continue_node<continue_msg> a(g, [&](const continue_msg&) { enter(0, -1); leave(0); return continue_msg(); });
        continue_node<continue_msg> b(g, [&](const continue_msg&) { enter(1, -1); leave(1); return continue_msg(); });
        int fired = 0;
        continue_node<continue_msg> c(g, [&](const continue_msg&) { enter(2, -1); ++fired; leave(2); return continue_msg(); });
        make_edge(start, a); make_edge(start, b); make_edge(a, c); make_edge(b, c);
        int rounds = std::min(nmsg, 4);
        for (int r = 0; r < rounds; ++r) { world.idle_declared = false; start.try_put(continue_msg()); g.wait_for_all(); world.idle_declared = true;
            SIM_CHECK(world.live == 0, "oracle:wait-for-all", "wait_for_all() returned while bodies run");
            SIM_CHECK(fired == r + 1, "oracle:continue-node", "continue_node with two predecessors fired %d times after %d rounds", fired, r + 1); }
        break;
    }
    case 7: {   // one buffering node feeds a reserving consumer (limiter_node pulls with reserve/consume) AND a pushing
                // consumer (rejecting node): every message goes to exactly one of them, exactly once
        int threshold = (int)sim::draw_range(1, 2, "threshold"), rc = (int)sim::draw_range(1, 2, "rej_conc"), kind = (int)sim::draw(3, "buffer_kind");
        world.ns[0].limit = c1; world.ns[1].limit = 1; world.ns[2].limit = rc; world.ns[3].limit = 1;
        int in_flight = 0, max_in_flight = 0;
        limiter_node<int> lim(g, (size_t)threshold);
        auto stage_body = [&](int m) noexcept { ++in_flight; if (in_flight > max_in_flight) max_in_flight = in_flight; enter(0, m); leave(0); return m; };
        function_node<int, continue_msg, queueing> commit(g, serial, [&](int m) -> continue_msg { enter(1, m); world.sunk[m]++; --in_flight; leave(1); return continue_msg(); });
        function_node<int, int, rejecting> rej(g, (size_t)rc, [&](int m) { enter(2, m); leave(2); return m; });
        function_node<int, continue_msg, queueing> sink2(g, serial, sink_body(3));
        make_edge(commit, lim.decrementer()); make_edge(rej, sink2);
        d.add(hx::fmt("threshold=%d rej_conc=%d buffer=%s", threshold, rc, kind == 0 ? "queue_node" : kind == 1 ? "buffer_node" : "priority_queue_node")); d.publish();
        auto run_with = [&](auto& q) {
            make_edge(q, lim); make_edge(q, rej);
            if (lw) { function_node<int, int, queueing_lightweight> stage(g, conc_of(c1), stage_body); make_edge(lim, stage); make_edge(stage, commit); put_all(q, false); finish(true, 1); }
            else { function_node<int, int, queueing> stage(g, conc_of(c1), stage_body); make_edge(lim, stage); make_edge(stage, commit); put_all(q, false); finish(true, 1); }
        };
        if (kind == 0) { queue_node<int> q(g); run_with(q); }
        else if (kind == 1) { buffer_node<int> q(g); run_with(q); }
        else { priority_queue_node<int> q(g); run_with(q); }
        SIM_CHECK(max_in_flight <= threshold, "oracle:limiter", "%d messages were forwarded by limiter_node without a decrement, threshold is %d", max_in_flight, threshold);
        break;
    }
    default: {  // async_node: a foreign thread completes the gateway later; optionally into a rejecting successor
        world.ns[0].limit = 0; world.ns[1].limit = 1;
        using AN = async_node<int, int>;
        std::vector<std::pair<int, AN::gateway_type*>> pendingw;
        sim::event wake;
        AN an(g, unlimited, [&](const int& m, AN::gateway_type& gw) { enter(0, m); gw.reserve_wait(); pendingw.push_back({m, &gw}); wake.signal(); leave(0); });
        bool rej_succ = sim::draw_bool("rejecting_successor");
        int sc = (int)sim::draw_range(1, 2, "succ_conc");
        world.ns[2].limit = sc;
        function_node<int, continue_msg, queueing> sink(g, serial, sink_body(1));
        // successor with rejecting policy and a finite limit: a gateway put that finds it saturated is reported as
        // rejected to the foreign thread (async_node does not buffer) and must leave nothing behind
        function_node<int, int, rejecting> mid(g, (size_t)sc, [&](int m) { enter(2, m); leave(2); return m; });
        if (rej_succ) { make_edge(an, mid); make_edge(mid, sink); } else make_edge(an, sink);
        std::set<int> delivered, dropped;
        bool stop = false;
        int foreign = sim::spawn([&] {
            while (!stop || !pendingw.empty()) {
                if (pendingw.empty()) { if (stop) break; wake.flag = false; wake.wait(); continue; }   // blocks (no polling)
                auto pr = pendingw.back(); pendingw.pop_back();
                for (int i = 0; i < 4; ++i) sim::upoint();
                bool ok = false;
                for (int attempt = 0; attempt < 3 && !ok; ++attempt) { ok = pr.second->try_put(pr.first); if (!ok) for (int i = 0; i < 6; ++i) sim::upoint(); }
                if (ok) delivered.insert(pr.first); else { dropped.insert(pr.first); SIM_CHECK(rej_succ, "oracle:unexpected-reject", "gateway try_put(%d) rejected although the successor never rejects", pr.first); }
                pr.second->release_wait();
            }
        }, "gateway");
        do_cancel = false;
        put_all(an, false);
        // all puts issued; the gateway thread completes the outstanding ones; wait_for_all must cover reserve_wait
        g.wait_for_all();
        SIM_CHECK(pendingw.empty(), "oracle:wait-for-all", "wait_for_all() returned although %zu reserve_wait calls are not released", pendingw.size());
        world.idle_declared = true; stop = true; wake.signal();
        sim::join(foreign);
        for (int m : delivered) SIM_CHECK(world.sunk[m] == 1, "oracle:message-lost", "async result %d (gateway try_put returned true) reached the sink %d times", m, world.sunk[m]);
        for (int m : dropped) SIM_CHECK(world.sunk[m] == 0 && world.ns[2].processed[m] == 0, "oracle:message-invented", "async result %d was reported as rejected to the gateway caller but was processed", m);
        if (!dropped.empty()) sim::probe("gateway-put-rejected");
        break;
    }
    case 8: {   // two queue_nodes feed one rejecting node with a concurrency limit (both edges flip to pull mode while the
                // body is busy); an outside thread takes items from the first queue with try_get, so the predecessor at the
                // front of the cache may have run empty while the other one still holds messages.  Every accepted message
                // is consumed exactly once, by the sink or by the outside thread; nothing stays behind in a queue
        int rc = (int)sim::draw_range(1, 2, "rej_conc"), gets = (int)sim::draw(5, "outside_gets"), ggap = (int)sim::draw(40, "get_gap");
        world.ns[0].limit = rc; world.ns[1].limit = 1;
        function_node<int, int, rejecting> f(g, (size_t)rc, [&](int m) { enter(0, m); leave(0); return m; });
        function_node<int, continue_msg, queueing> sink(g, serial, sink_body(1));
        queue_node<int> q1(g), q2(g);
        make_edge(q1, f); make_edge(q2, f); make_edge(f, sink);
        d.add(hx::fmt("rej_conc=%d outside_gets=%d gap=%d", rc, gets, ggap)); d.publish();
        std::vector<std::function<void()>> fns;
        for (int p = 0; p < nputters; ++p) fns.push_back([&, p] {
            for (int m = p; m < nmsg; m += nputters) {
                sim::upoint();
                world.idle_declared = false;
                bool ok = (m % 2 == 0) ? q1.try_put(m) : q2.try_put(m);
                SIM_CHECK(ok, "oracle:unexpected-reject", "queue_node rejected try_put(%d)", m);
                ++accepted; accepted_ids.push_back(m);
            }
        });
        fns.push_back([&] {
            for (int i = 0; i < gets; ++i) {
                for (int k = 0; k < ggap; ++k) sim::upoint();
                int v = -1;
                if (q1.try_get(v)) { world.sunk[v]++; sim::probe("outside-get-took-an-item"); }
            }
        });
        if (do_cancel) fns.push_back([&] { for (int i = 0; i < 15; ++i) sim::upoint(); sim::fault_fired("cancel"); world.cancelled = true; g.cancel(); });
        hx::run_fibers(fns);
        finish(true, 1);
        if (!do_cancel) { int v = -1; SIM_CHECK(!q1.try_get(v) && !q2.try_get(v), "oracle:message-lost", "message %d is still buffered in a queue_node after wait_for_all() although its rejecting successor is idle", v); }
        break;
    }
    }
    if (world.cancelled) sim::probe("graph-cancelled");
    W = nullptr;
}
