// Driver: zygote (fork-per-run, allocation-free loop), runner (seed stripes / job server).
// See /verif/DESIGN.md section 6.  Compiled WITHOUT the renaming prelude.
#include <cerrno>
#include <cstdint>
#include <cstdio>
#include <cstdlib>
#include <cstring>
#include <string>
#include <vector>
#include <map>
#include <set>
#include <unordered_set>
#include <algorithm>
#include <chrono>
#include <regex>
#include <fcntl.h>
#include <poll.h>
#include <signal.h>
#include <sys/mman.h>
#include <sys/personality.h>
#include <sys/wait.h>
#include <sys/resource.h>
#include <unistd.h>
#include "../sim/sim_rt.h"

using namespace sim;

extern "C" void sim_zygote_warmup();   // defined in harness/warmup.cpp (compiled with the prelude)

constexpr uint32_t JF_WANT_TAPE = 32, JF_WANT_DEC = 64, JF_WANT_SAMPLE = 128;
constexpr uint64_t RES_MAGIC = 0x53494d5245533031ull;

struct ResHdr {
    uint64_t magic;
    int32_t exit_code, sig;
    uint32_t done;
    char cls[64];
    char msg[2048];
    char tag[160];
    uint64_t steps, switches, preempts, sim_ns, hash, sig_hash, choices;
    uint32_t nfibers, window, strategy, tso, faults_on, P;
    uint32_t n_faults; NamedCount faults[32];
    uint32_t n_probes; NamedCount probes[128];
    uint32_t sample_len, tape_len, dec_len, err_len, tape_overflow, dec_overflow;
};

static bool read_full(int fd, void* buf, size_t n) {
    char* p = (char*)buf;
    while (n) {
        ssize_t r = read(fd, p, n);
        if (r == 0) return false;
        if (r < 0) { if (errno == EINTR) continue; return false; }
        p += r; n -= (size_t)r;
    }
    return true;
}
static bool write_full(int fd, const void* buf, size_t n) {
    const char* p = (const char*)buf;
    while (n) {
        ssize_t r = write(fd, p, n);
        if (r < 0) { if (errno == EINTR) continue; return false; }
        p += r; n -= (size_t)r;
    }
    return true;
}

// ============================================================================ zygote
static uint64_t z_tape[MAX_TAPE];
static Dec z_dec[MAX_DEC];
static char z_err[8192];

static int zygote_main() {
    sim_zygote_warmup();
    Shared* sh = (Shared*)mmap(nullptr, sizeof(Shared), PROT_READ | PROT_WRITE, MAP_SHARED | MAP_ANONYMOUS, -1, 0);
    if (sh == MAP_FAILED) { perror("mmap shared"); return 3; }
    static Job job;
    static ResHdr rh;
    for (;;) {
        if (!read_full(0, &job, sizeof job)) return 0;
        if (job.magic != JOB_MAGIC || job.tape_len > MAX_TAPE || job.dec_len > MAX_DEC) return 4;
        if (job.tape_len && !read_full(0, z_tape, sizeof(uint64_t) * job.tape_len)) return 4;
        if (job.dec_len && !read_full(0, z_dec, sizeof(Dec) * job.dec_len)) return 4;
        sh->done = 0;
        off_t err_off = lseek(2, 0, SEEK_END);
        pid_t pid = fork();
        if (pid < 0) { perror("fork"); return 5; }
        if (pid == 0) {
            close(0); close(1);
            child_run(job, z_tape, z_dec, sh);
        }
        int st = 0;
        while (waitpid(pid, &st, 0) < 0 && errno == EINTR) {}
        memset(&rh, 0, sizeof rh);
        rh.magic = RES_MAGIC;
        rh.exit_code = WIFEXITED(st) ? WEXITSTATUS(st) : -1;
        rh.sig = WIFSIGNALED(st) ? WTERMSIG(st) : 0;
        rh.done = sh->done;
        memcpy(rh.cls, sh->cls, sizeof rh.cls);
        memcpy(rh.msg, sh->msg, sizeof rh.msg);
        memcpy(rh.tag, sh->tag, sizeof rh.tag); rh.tag[sizeof rh.tag - 1] = 0;
        rh.steps = sh->steps; rh.switches = sh->switches; rh.preempts = sh->preempts; rh.sim_ns = sh->sim_ns;
        rh.hash = sh->hash; rh.sig_hash = sh->sig_hash; rh.choices = sh->choices;
        rh.nfibers = sh->nfibers; rh.window = sh->window; rh.strategy = sh->strategy; rh.tso = sh->tso;
        rh.faults_on = sh->faults_on; rh.P = sh->P;
        rh.n_faults = sh->n_faults > 32 ? 32 : sh->n_faults; memcpy(rh.faults, sh->faults, sizeof rh.faults);
        rh.n_probes = sh->n_probes > 128 ? 128 : sh->n_probes; memcpy(rh.probes, sh->probes, sizeof rh.probes);
        bool bad = !sh->done || strcmp(sh->cls, "ok") != 0;
        rh.sample_len = (job.flags & JF_WANT_SAMPLE) ? (uint32_t)strnlen(sh->sample, sizeof sh->sample) : 0;
        rh.tape_len = ((job.flags & JF_WANT_TAPE) || bad) ? sh->tape_len : 0;
        rh.dec_len = ((job.flags & JF_WANT_DEC)) ? sh->dec_len : 0;
        rh.tape_overflow = sh->tape_overflow; rh.dec_overflow = sh->dec_overflow;
        rh.err_len = 0;
        if (!sh->done) {
            off_t end = lseek(2, 0, SEEK_END);
            if (end > err_off) {
                off_t from = end - err_off > (off_t)sizeof z_err ? end - (off_t)sizeof z_err : err_off;
                ssize_t r = pread(2, z_err, (size_t)(end - from), from);
                if (r > 0) rh.err_len = (uint32_t)r;
            }
        }
        if (!write_full(1, &rh, sizeof rh)) return 6;
        if (rh.sample_len && !write_full(1, sh->sample, rh.sample_len)) return 6;
        if (rh.tape_len && !write_full(1, sh->tape, sizeof(uint64_t) * rh.tape_len)) return 6;
        if (rh.dec_len && !write_full(1, sh->dec, sizeof(Dec) * rh.dec_len)) return 6;
        if (rh.err_len && !write_full(1, z_err, rh.err_len)) return 6;
    }
}

// ============================================================================ runner side
struct Result {
    ResHdr h;
    std::string sample, err;
    std::vector<uint64_t> tape;
    std::vector<Dec> dec;
    std::string cls() const;
};

static bool contains(const std::string& s, const char* t) { return s.find(t) != std::string::npos; }

static std::string crash_message(const Result& r) {
    // the informative part of a sanitizer / assertion report, prefixed with the scenario's context tag
    const std::string& e = r.err;
    size_t pos = e.find("ERROR: AddressSanitizer");
    if (pos == std::string::npos) pos = e.find("runtime error:");
    if (pos == std::string::npos) pos = e.find("Assertion ");
    if (pos == std::string::npos) pos = e.find("terminate called");
    std::string body = pos == std::string::npos ? e.substr(e.size() > 1200 ? e.size() - 1200 : 0) : e.substr(pos, 1200);
    return (r.h.tag[0] ? "[" + std::string(r.h.tag) + "] " : std::string()) + body;
}

std::string Result::cls() const {
    if (h.done) return h.cls;
    // abnormal termination: classify from exit status and stderr tail
    if (contains(err, "Assertion") && contains(err, "failed")) return "tbb-assert";
    if (contains(err, "AddressSanitizer")) return "asan";
    if (contains(err, "runtime error:")) return "ubsan";
    if (contains(err, "terminate called")) return "crash:terminate";
    if (h.sig == SIGALRM) return "tool:timeout";
    if (h.sig) return std::string("crash:sig") + std::to_string(h.sig);
    if (h.exit_code == 77) return "asan";
    return std::string("crash:exit") + std::to_string(h.exit_code);
}

struct Zygote {
    pid_t pid = -1;
    int to = -1, from = -1;
    std::string errpath;
    bool start(const char* self, const std::string& errfile);
    bool run(const Job& j, const uint64_t* tape, const Dec* dec, Result& r);
    void stop();
};

bool Zygote::start(const char* self, const std::string& errfile) {
    errpath = errfile;
    int a[2], b[2];
    if (pipe(a) || pipe(b)) return false;
    pid = fork();
    if (pid < 0) return false;
    if (pid == 0) {
        dup2(a[0], 0); dup2(b[1], 1);
        int efd = open(errfile.c_str(), O_RDWR | O_CREAT | O_TRUNC | O_APPEND, 0644);
        if (efd >= 0) { dup2(efd, 2); }
        for (int fd = 3; fd < 256; ++fd) close(fd);
        personality(ADDR_NO_RANDOMIZE);
        struct rlimit rl; rl.rlim_cur = rl.rlim_max = 0; setrlimit(RLIMIT_CORE, &rl);
        rl.rlim_cur = rl.rlim_max = 8u << 20; setrlimit(RLIMIT_STACK, &rl);
        char* const argv[] = {(char*)"simtbb", (char*)"--zygote", nullptr};
        char* const envp[] = {(char*)"ASAN_OPTIONS=detect_leaks=0:exitcode=77:abort_on_error=0:detect_stack_use_after_return=0:allocator_may_return_null=1:handle_segv=1",
                              (char*)"UBSAN_OPTIONS=print_stacktrace=0:halt_on_error=1:exitcode=78", (char*)"LC_ALL=C", nullptr};
        execve(self, argv, envp);
        _exit(127);
    }
    close(a[0]); close(b[1]);
    to = a[1]; from = b[0];
    return true;
}
void Zygote::stop() {
    if (to >= 0) close(to);
    if (from >= 0) close(from);
    if (pid > 0) { int st; waitpid(pid, &st, 0); }
    pid = -1; to = from = -1;
}
bool Zygote::run(const Job& j, const uint64_t* tape, const Dec* dec, Result& r) {
    if (!write_full(to, &j, sizeof j)) return false;
    if (j.tape_len && !write_full(to, tape, sizeof(uint64_t) * j.tape_len)) return false;
    if (j.dec_len && !write_full(to, dec, sizeof(Dec) * j.dec_len)) return false;
    if (!read_full(from, &r.h, sizeof r.h) || r.h.magic != RES_MAGIC) return false;
    r.sample.assign(r.h.sample_len, 0);
    if (r.h.sample_len && !read_full(from, &r.sample[0], r.h.sample_len)) return false;
    r.tape.resize(r.h.tape_len);
    if (r.h.tape_len && !read_full(from, r.tape.data(), sizeof(uint64_t) * r.h.tape_len)) return false;
    r.dec.resize(r.h.dec_len);
    if (r.h.dec_len && !read_full(from, r.dec.data(), sizeof(Dec) * r.h.dec_len)) return false;
    r.err.assign(r.h.err_len, 0);
    if (r.h.err_len && !read_full(from, &r.err[0], r.h.err_len)) return false;
    return true;
}

static std::string jesc(const std::string& s) {
    std::string o;
    for (unsigned char c : s) {
        if (c == '"' || c == '\\') { o += '\\'; o += (char)c; }
        else if (c == '\n') o += "\\n";
        else if (c == '\t') o += "\\t";
        else if (c < 0x20 || c >= 0x7f) { char b[8]; snprintf(b, sizeof b, "\\u%04x", c); o += b; }
        else o += (char)c;
    }
    return o;
}
static const char* const kStrat[] = {"rw", "burst", "pct", "stall", "hunt", "?"};

static std::string result_json(const Job& j, const Result& r, bool with_arrays) {
    std::string s = "{";
    char b[512];
    snprintf(b, sizeof b, "\"seed\":%llu,\"sched_seed\":%llu,\"class\":\"%s\",", (unsigned long long)j.seed, (unsigned long long)j.sched_seed, jesc(r.cls()).c_str());
    s += b;
    s += "\"message\":\"" + jesc(r.h.done ? std::string(r.h.msg) : crash_message(r)) + "\",";
    snprintf(b, sizeof b, "\"steps\":%llu,\"switches\":%llu,\"preempts\":%llu,\"sim_ns\":%llu,\"event_hash\":\"%016llx\",\"sig_hash\":\"%016llx\",\"choices\":%llu,"
             "\"nfibers\":%u,\"window\":%u,\"strategy\":\"%s\",\"tso\":%u,\"faults_on\":%u,\"P\":%u,\"exit\":%d,\"signal\":%d",
             (unsigned long long)r.h.steps, (unsigned long long)r.h.switches, (unsigned long long)r.h.preempts, (unsigned long long)r.h.sim_ns,
             (unsigned long long)r.h.hash, (unsigned long long)r.h.sig_hash, (unsigned long long)r.h.choices, r.h.nfibers, r.h.window,
             kStrat[r.h.strategy < 5 ? r.h.strategy : 5], r.h.tso, r.h.faults_on, r.h.P, r.h.exit_code, r.h.sig);
    s += b;
    s += ",\"faults\":{";
    for (uint32_t i = 0; i < r.h.n_faults; ++i) { snprintf(b, sizeof b, "%s\"%s\":%u", i ? "," : "", r.h.faults[i].name, r.h.faults[i].n); s += b; }
    s += "},\"probes\":{";
    for (uint32_t i = 0; i < r.h.n_probes; ++i) { snprintf(b, sizeof b, "%s\"%s\":%u", i ? "," : "", r.h.probes[i].name, r.h.probes[i].n); s += b; }
    s += "}";
    if (!r.sample.empty()) s += ",\"sample\":\"" + jesc(r.sample) + "\"";
    if (with_arrays) {
        s += ",\"tape\":[";
        for (size_t i = 0; i < r.tape.size(); ++i) { snprintf(b, sizeof b, "%s%llu", i ? "," : "", (unsigned long long)r.tape[i]); s += b; }
        s += "],\"decisions\":[";
        for (size_t i = 0; i < r.dec.size(); ++i) { snprintf(b, sizeof b, "%s[%llu,%u,%u]", i ? "," : "", (unsigned long long)r.dec[i].key, r.dec[i].kind, r.dec[i].val); s += b; }
        s += "]";
        snprintf(b, sizeof b, ",\"tape_overflow\":%u,\"dec_overflow\":%u", r.h.tape_overflow, r.h.dec_overflow); s += b;
    }
    s += "}";
    return s;
}

static double now_s() {
    using namespace std::chrono;
    return duration<double>(steady_clock::now().time_since_epoch()).count();
}

// --stripe <scenario> <tier> <seed0> <offset> <stride> <max_runs> <budget_s> <outprefix> [flags]
static int stripe_main(const char* self, int argc, char** argv) {
    if (argc < 10) { fprintf(stderr, "usage: --stripe scen tier seed0 offset stride max_runs budget_s outprefix\n"); return 2; }
    int sc = find_scenario(argv[2]);
    if (sc < 0) { fprintf(stderr, "unknown scenario %s\n", argv[2]); return 2; }
    int tier = atoi(argv[3]);
    uint64_t seed0 = strtoull(argv[4], nullptr, 10), offset = strtoull(argv[5], nullptr, 10), stride = strtoull(argv[6], nullptr, 10);
    uint64_t max_runs = strtoull(argv[7], nullptr, 10);
    double budget = atof(argv[8]);
    std::string prefix = argv[9];
    uint32_t extra_flags = argc > 10 ? (uint32_t)strtoul(argv[10], nullptr, 10) : 0;
    int max_fail = argc > 11 ? atoi(argv[11]) : 3;
    // known findings (class <TAB> regex per line): counted, one sample kept, never stop the stripe
    std::vector<std::pair<std::string, std::regex>> known;
    if (argc > 12) {
        FILE* kf = fopen(argv[12], "r");
        char kl[4096];
        while (kf && fgets(kl, sizeof kl, kf)) {
            char* tab = strchr(kl, '\t');
            if (!tab) continue;
            *tab = 0;
            std::string re(tab + 1);
            while (!re.empty() && (re.back() == '\n' || re.back() == '\r')) re.pop_back();
            try { known.emplace_back(kl, std::regex(re)); } catch (...) {}
        }
        if (kf) fclose(kf);
    }
    std::set<std::string> known_seen;
    Zygote z;
    if (!z.start(self, prefix + ".err")) { fprintf(stderr, "cannot start zygote\n"); return 2; }
    std::map<std::string, uint64_t> classes, faults, probes_runs, probes_hits, strat;
    std::unordered_set<uint64_t> distinct;
    uint64_t runs = 0, steps = 0, switches = 0, preempts = 0, sim_ns = 0, tso_runs = 0, fault_runs = 0, window_runs = 0;
    std::vector<std::string> failures, samples, inconclusive;
    double t0 = now_s();
    int nfail = 0;
    for (uint64_t i = 0; i < max_runs; ++i) {
        if ((i & 15) == 0 && now_s() - t0 > budget) break;
        Job j{}; j.magic = JOB_MAGIC; j.seed = seed0 + offset + i * stride; j.scenario = (uint32_t)sc; j.tier = tier; j.flags = extra_flags;
        bool want_sample = (offset == 0 && i < 4);
        if (want_sample) j.flags |= JF_WANT_SAMPLE | JF_WANT_DEC;
        Result r;
        if (!z.run(j, nullptr, nullptr, r)) { fprintf(stderr, "zygote died\n"); return 2; }
        ++runs;
        std::string c = r.cls();
        steps += r.h.steps; switches += r.h.switches; preempts += r.h.preempts; sim_ns += r.h.sim_ns;
        if (r.h.tso) ++tso_runs;
        if (r.h.faults_on) ++fault_runs;
        strat[kStrat[r.h.strategy < 5 ? r.h.strategy : 5]]++;
        uint64_t nf = 0;
        for (uint32_t k = 0; k < r.h.n_faults; ++k) { faults[r.h.faults[k].name] += r.h.faults[k].n; nf += r.h.faults[k].n; }
        for (uint32_t k = 0; k < r.h.n_probes; ++k) { probes_runs[r.h.probes[k].name]++; probes_hits[r.h.probes[k].name] += r.h.probes[k].n; }
        if (r.h.window) ++window_runs;
        if (r.h.done && r.h.window && (r.h.preempts >= 1 || nf >= 1)) distinct.insert(r.h.sig_hash);
        if (want_sample) {
            // compact sample: program text + first switch decisions
            Result rr = r; if (rr.dec.size() > 40) rr.dec.resize(40); rr.tape.clear();
            samples.push_back(result_json(j, rr, true));
        }
        bool counted = false;
        if (c != "ok") {
            if (c == "budget" || c == "hang-after-fault") { if (inconclusive.size() < 5) inconclusive.push_back(result_json(j, r, false)); }
            else {
                bool is_known = false;
                std::string msg = r.h.done ? std::string(r.h.msg) : crash_message(r);
                for (auto& k : known) if (k.first == c && std::regex_search(msg, k.second)) { is_known = true; break; }
                if (is_known) {
                    classes["known:" + c]++; counted = true;
                    if (known_seen.insert(c + msg.substr(0, 80)).second && failures.size() < 50) { Result rr = r; rr.dec.clear(); failures.push_back(result_json(j, rr, true)); }
                } else {
                    if (failures.size() < 50) { Result rr = r; rr.dec.clear(); failures.push_back(result_json(j, rr, true)); }
                    if (++nfail >= max_fail) { classes[c]++; break; }
                }
            }
        }
        if (!counted) classes[c]++;
    }
    z.stop();
    double wall = now_s() - t0;
    FILE* f = fopen((prefix + ".json").c_str(), "w");
    if (!f) { perror("open out"); return 2; }
    auto dump_map = [&](const char* name, const std::map<std::string, uint64_t>& m) {
        fprintf(f, "\"%s\":{", name);
        bool first = true;
        for (auto& kv : m) { fprintf(f, "%s\"%s\":%llu", first ? "" : ",", jesc(kv.first).c_str(), (unsigned long long)kv.second); first = false; }
        fprintf(f, "},");
    };
    fprintf(f, "{\"runs\":%llu,\"steps\":%llu,\"switches\":%llu,\"preempts\":%llu,\"sim_ns\":%llu,\"tso_runs\":%llu,\"fault_runs\":%llu,\"window_runs\":%llu,\"wall_s\":%.3f,",
            (unsigned long long)runs, (unsigned long long)steps, (unsigned long long)switches, (unsigned long long)preempts, (unsigned long long)sim_ns,
            (unsigned long long)tso_runs, (unsigned long long)fault_runs, (unsigned long long)window_runs, wall);
    fprintf(f, "\"seed_first\":%llu,\"seed_last\":%llu,", (unsigned long long)(seed0 + offset), (unsigned long long)(seed0 + offset + (runs ? runs - 1 : 0) * stride));
    dump_map("classes", classes); dump_map("faults", faults); dump_map("probes_runs", probes_runs); dump_map("probes_hits", probes_hits); dump_map("strategies", strat);
    auto dump_list = [&](const char* name, const std::vector<std::string>& v, bool last) {
        fprintf(f, "\"%s\":[", name);
        for (size_t i = 0; i < v.size(); ++i) fprintf(f, "%s%s", i ? "," : "", v[i].c_str());
        fprintf(f, "]%s", last ? "" : ",");
    };
    dump_list("failures", failures, false); dump_list("inconclusive", inconclusive, false); dump_list("samples", samples, true);
    fprintf(f, "}\n");
    fclose(f);
    FILE* h = fopen((prefix + ".hashes").c_str(), "wb");
    if (h) { for (uint64_t v : distinct) fwrite(&v, 8, 1, h); fclose(h); }
    return 0;
}

// --serve <scenario> <tier> <errfile>: one job per stdin line, one JSON result per stdout line.
// line: seed sched_seed flags ntape t... ndec (key kind val)...
static int serve_main(const char* self, int argc, char** argv) {
    if (argc < 5) { fprintf(stderr, "usage: --serve scen tier errfile\n"); return 2; }
    int sc = find_scenario(argv[2]);
    if (sc < 0) { fprintf(stderr, "unknown scenario %s\n", argv[2]); return 2; }
    int tier = atoi(argv[3]);
    Zygote z;
    if (!z.start(self, argv[4])) return 2;
    std::vector<char> line(64u << 20);
    while (fgets(line.data(), (int)line.size(), stdin)) {
        char* p = line.data();
        auto nextu = [&]() -> uint64_t { while (*p == ' ') ++p; char* e; uint64_t v = strtoull(p, &e, 10); p = e; return v; };
        Job j{}; j.magic = JOB_MAGIC; j.scenario = (uint32_t)sc; j.tier = tier;
        j.seed = nextu(); j.sched_seed = nextu(); j.flags = (uint32_t)nextu();
        std::vector<uint64_t> tape; std::vector<Dec> dec;
        uint64_t nt = nextu(); for (uint64_t i = 0; i < nt; ++i) tape.push_back(nextu());
        uint64_t nd = nextu(); for (uint64_t i = 0; i < nd; ++i) { Dec d; d.key = nextu(); d.kind = (uint32_t)nextu(); d.val = (uint32_t)nextu(); dec.push_back(d); }
        if (tape.size() > MAX_TAPE) tape.resize(MAX_TAPE);
        if (dec.size() > MAX_DEC) dec.resize(MAX_DEC);
        j.tape_len = (uint32_t)tape.size(); j.dec_len = (uint32_t)dec.size();
        Result r;
        if (!z.run(j, tape.data(), dec.data(), r)) { printf("{\"class\":\"tool:zygote-died\"}\n"); fflush(stdout); return 2; }
        bool arrays = (j.flags & (JF_WANT_TAPE | JF_WANT_DEC)) != 0;
        if (!(j.flags & JF_WANT_TAPE)) r.tape.clear();
        std::string s = result_json(j, r, arrays);
        fputs(s.c_str(), stdout); fputc('\n', stdout); fflush(stdout);
    }
    z.stop();
    return 0;
}

int main(int argc, char** argv) {
    if (argc >= 2 && !strcmp(argv[1], "--zygote")) return zygote_main();
    char self[4096];
    ssize_t n = readlink("/proc/self/exe", self, sizeof self - 1);
    if (n <= 0) { perror("readlink"); return 2; }
    self[n] = 0;
    signal(SIGPIPE, SIG_IGN);
    if (argc >= 2 && !strcmp(argv[1], "--list")) {
        for (int i = 0; i < n_scenarios(); ++i) printf("%s %s\n", scenario(i).name, scenario(i).property);
        return 0;
    }
    if (argc >= 2 && !strcmp(argv[1], "--stripe")) return stripe_main(self, argc, argv);
    if (argc >= 2 && !strcmp(argv[1], "--serve")) return serve_main(self, argc, argv);
    fprintf(stderr, "usage: simtbb --list | --stripe ... | --serve ...\n");
    return 2;
}
