// C20 — a suspended task resumes exactly once, after and only after resume(), however resume races with the
// suspension; the enclosing wait covers suspended tasks; the suspending thread keeps working.
#include "rt_common.h"
#include "oneapi/tbb/task.h"
#include "oneapi/tbb/parallel_for.h"

namespace {
struct SP {
    tbb::task::suspend_point tag{};
    bool have_tag = false, resume_called = false;
    int continued = 0;
    int inside = 0;
    sim::event ready;     // set when the callback has stored the tag
};
}

SIM_SCENARIO(scen_c20, "c20", "C20", 6000000, 30000) {
    hx::Desc d;
    hx::draw_runtime_config(d);
    int ntasks = (int)sim::draw_range(1, 5, "tasks");
    int conc = (int)sim::draw(4, "arena_conc");       // 0 implicit, 1..3 explicit (1 = owner recall path)
    bool use_pfor = sim::draw_bool("pfor");
    struct Plan { int how; int delay; int nested; int points; };   // how: 0 resume inside callback, 1 foreign fiber, 2 another tbb task, 3 delayed foreign
    std::vector<Plan> plan((size_t)ntasks);
    std::string s;
    for (auto& p : plan) {
        p.how = (int)sim::draw(4, "how"); p.delay = (int)sim::draw(60, "delay"); p.nested = (int)sim::draw(3, "nested") == 0 ? 1 : 0; p.points = (int)sim::draw(6, "points");
        s += hx::fmt(" [how=%d delay=%d nested=%d]", p.how, p.delay, p.nested);
    }
    // the enclosing group may live inside this_task_arena::isolate: the waiting thread then takes only tasks of its own
    // isolation scope, but resume tasks must reach it all the same
    bool iso = sim::draw(3, "isolate") == 0;
    d.add(hx::fmt("resumable tasks=%d arena=%d pfor=%d isolate=%d:%s", ntasks, conc, (int)use_pfor, (int)iso, s.c_str()));
    d.publish();
    std::vector<SP> sps((size_t)ntasks * 2);
    int other_units = 0, finished_tasks = 0;
    bool wait_returned = false;
    std::vector<int> foreign;     // indices of suspend points a foreign fiber has to resume
    tbb::task_group* tgp = nullptr;
    auto do_suspend = [&](int idx, int how, int delay) {
        SP& sp = sps[(size_t)idx];
        tbb::task::suspend([&, idx, how, delay](tbb::task::suspend_point tag) {
            SP& q = sps[(size_t)idx];
            q.tag = tag; q.have_tag = true;
            if (how == 0) { q.resume_called = true; tbb::task::resume(tag); }                    // resume before the suspension has taken effect
            else if (how == 2) { tgp->run([&q] { for (int i = 0; i < 3; ++i) sim::upoint(); q.resume_called = true; tbb::task::resume(q.tag); }); }
            else { (void)delay; q.ready.signal(); }                                              // a foreign fiber resumes it
        });
        // continuation
        SIM_CHECK(sp.resume_called, "oracle:resumed-without-resume", "suspend point %d continued although resume() was never called for it", idx);
        SIM_CHECK(sp.inside == 0 && sp.continued == 0, "oracle:resumed-twice", "suspend point %d continued a second time (or on two threads at once)", idx);
        SIM_CHECK(!wait_returned, "oracle:wait-incomplete", "a suspended task continued after the enclosing wait had returned");
        sp.inside++; sp.continued++;
        sim::upoint();
        sp.inside--;
    };
    auto task_body = [&](int t) {
        const Plan& p = plan[(size_t)t];
        for (int i = 0; i < p.points; ++i) sim::upoint();
        do_suspend(t * 2, p.how, p.delay);
        if (p.nested) do_suspend(t * 2 + 1, (p.how + 1) % 4, p.delay / 2);      // a resumed task suspends again
        ++finished_tasks;
    };
    auto filler = [&] { for (int i = 0; i < 5; ++i) sim::upoint(); ++other_units; };
    // foreign resumers (not TBB threads): wait for the tag, optionally delay, resume
    std::vector<int> fids;
    for (int t = 0; t < ntasks; ++t) for (int k = 0; k < 2; ++k) {
        int how = k == 0 ? plan[(size_t)t].how : (plan[(size_t)t].how + 1) % 4;
        if (k == 1 && !plan[(size_t)t].nested) continue;
        if (how == 1 || how == 3) {
            int idx = t * 2 + k, delay = how == 3 ? plan[(size_t)t].delay : 0;
            fids.push_back(sim::spawn([&, idx, delay] { SP& q = sps[(size_t)idx]; q.ready.wait(); for (int i = 0; i < delay; ++i) sim::upoint(); q.resume_called = true; tbb::task::resume(q.tag); }, "resumer"));
        }
    }
    auto run = [&] {
        tbb::task_group tg; tgp = &tg;
        if (use_pfor) {
            tbb::parallel_for(0, ntasks + 3, [&](int i) { if (i < ntasks) task_body(i); else filler(); }, tbb::simple_partitioner());
        } else {
            for (int t = 0; t < ntasks; ++t) tg.run([&, t] { task_body(t); });
            for (int i = 0; i < 3; ++i) tg.run(filler);
        }
        tg.wait();
        wait_returned = true;
        tgp = nullptr;
    };
    auto run_iso = [&] { if (iso) tbb::this_task_arena::isolate(run); else run(); };
    if (conc) { tbb::task_arena a(conc); a.execute(run_iso); } else run_iso();
    SIM_CHECK(finished_tasks == ntasks, "oracle:wait-incomplete", "the enclosing wait returned with %d of %d suspended tasks finished", finished_tasks, ntasks);
    for (int t = 0; t < ntasks; ++t) {
        SIM_CHECK(sps[(size_t)t * 2].continued == 1, "oracle:never-resumed", "suspend point %d continued %d times", t * 2, sps[(size_t)t * 2].continued);
        if (plan[(size_t)t].nested) SIM_CHECK(sps[(size_t)t * 2 + 1].continued == 1, "oracle:never-resumed", "nested suspend point %d continued %d times", t * 2 + 1, sps[(size_t)t * 2 + 1].continued);
    }
    for (int id : fids) sim::join(id);
    if (other_units) sim::probe("other-work-ran");
}

// c20b — two application threads in a fully reserved arena(2,2): M2 suspends at a nested dispatch level and stays
// busy on its coroutine with a hold task H, M1 suspends at the outermost level of its execute() (no dispatch loop
// below), a foreign thread resumes both in either order with drawn delays.  When sp2 is resumed first the only idle
// thread, M1, continues M2's body on M2's stack and waits there; resume(sp1) must then bring M1 back to its own
// code (owner recall), which is what lets H, the inner wait and both execute() calls finish.
SIM_SCENARIO(scen_c20b, "c20b", "C20", 6000000, 30000) {
    hx::Desc d;
    hx::draw_runtime_config(d);
    bool sp2_first = sim::draw(4, "order") != 0;
    int d1 = (int)sim::draw(120, "delay1"), d2 = (int)sim::draw(400, "delay2"), extra = (int)sim::draw(3, "extra_tasks");
    bool m1_nested_too = sim::draw(4, "m1_nested") == 0;     // control: M1 suspends inside a task instead
    d.add(hx::fmt("outermost/nested suspend pair in arena(2,2): %s first, delays %d/%d, extra=%d, m1_nested=%d", sp2_first ? "sp2" : "sp1", d1, d2, extra, (int)m1_nested_too));
    d.publish();
    tbb::task_arena arena(2, 2);
    tbb::task_group tg2, inner;
    tbb::task::suspend_point sp1{}, sp2{};
    sim::event h_started, have_sp1, have_sp2;
    bool resumed1 = false, resumed2 = false;
    int after1 = 0, cont2 = 0, extra_ran = 0;
    int m2 = sim::spawn([&] {
        arena.execute([&] {
            tg2.run_and_wait([&] {
                inner.run([&] { h_started.signal(); while (after1 == 0) sim::point(sim::K_YIELD, nullptr); });      // H (spins like library code: a yield point)
                for (int i = 0; i < extra; ++i) inner.run([&] { sim::upoint(); ++extra_ran; });
                tbb::task::suspend([&](tbb::task::suspend_point p) { sp2 = p; have_sp2.signal(); });
                SIM_CHECK(resumed2, "oracle:resumed-without-resume", "the body suspended on sp2 continued although resume(sp2) was never called");
                SIM_CHECK(++cont2 == 1, "oracle:resumed-twice", "the body suspended on sp2 continued a second time");
                inner.wait();
            });
        });
    }, "M2");
    h_started.wait();
    int m1 = sim::spawn([&] {
        arena.execute([&] {
            auto body = [&] {
                tbb::task::suspend([&](tbb::task::suspend_point p) { sp1 = p; have_sp1.signal(); });
                SIM_CHECK(resumed1, "oracle:resumed-without-resume", "the code suspended on sp1 continued although resume(sp1) was never called");
                SIM_CHECK(++after1 == 1, "oracle:resumed-twice", "the code suspended on sp1 continued a second time");
            };
            if (m1_nested_too) { tbb::task_group g; g.run_and_wait(body); } else body();
        });
    }, "M1");
    have_sp1.wait(); have_sp2.wait();
    for (int i = 0; i < d1; ++i) sim::upoint();
    if (sp2_first) { resumed2 = true; tbb::task::resume(sp2); } else { resumed1 = true; tbb::task::resume(sp1); }
    for (int i = 0; i < d2; ++i) sim::upoint();
    if (sp2_first) { resumed1 = true; tbb::task::resume(sp1); } else { resumed2 = true; tbb::task::resume(sp2); }
    // both resumes have been called and nothing else is pending: the continuations run within a bounded number of steps
    for (int i = 0; i < 400000 && !(sim::fiber_done(m1) && sim::fiber_done(m2)); ++i) sim::point(sim::K_YIELD, nullptr);
    SIM_CHECK(after1 == 1, "oracle:never-resumed", "resume(sp1) was called but the code suspended at the outermost level never continued (400000 steps later)");
    SIM_CHECK(cont2 == 1, "oracle:never-resumed", "resume(sp2) was called but the nested suspended body never continued (400000 steps later)");
    sim::join(m1); sim::join(m2);
    SIM_CHECK(extra_ran == extra, "oracle:wait-incomplete", "%d of %d sibling tasks ran", extra_ran, extra);
}

// c20c — suspension on a stack that is executing a CRITICAL task: the body of a flow-graph node that has a priority
// suspends; the resume comes from a foreign thread at once, after a short delay, or only after the arena has gone
// idle (every thread asleep).  The suspended body must continue exactly once after resume(); graph::wait_for_all
// returns only after every body has finished.
#include "oneapi/tbb/flow_graph.h"
SIM_SCENARIO(scen_c20c, "c20c", "C20", 6000000, 30000) {
    using namespace tbb::flow;
    hx::Desc d;
    hx::draw_runtime_config(d);
    int conc = (int)sim::draw(4, "arena_conc");           // 0 implicit arena, 1..3 explicit
    int nmsg = (int)sim::draw_range(1, 3, "messages"), prio = (int)sim::draw(3, "priority");   // 0: plain node (control)
    static const int delays[] = {0, 8, 60, 400, 2500};
    int delay = sim::draw_of(delays, "resume_delay");
    bool idle_first = sim::draw_bool("resume_when_idle");
    d.add(hx::fmt("suspend inside a %s function_node body: arena=%d messages=%d resume %s", prio ? hx::fmt("priority-%d", prio).c_str() : "plain", conc, nmsg,
                  idle_first ? "after every thread has gone to sleep" : hx::fmt("after %d points", delay).c_str()));
    d.publish();
    std::vector<SP> sps((size_t)nmsg);
    int finished = 0; bool wait_returned = false;
    auto body = [&](int m) -> int {
        SP& sp = sps[(size_t)m];
        tbb::task::suspend([&sp](tbb::task::suspend_point tag) { sp.tag = tag; sp.have_tag = true; sp.ready.signal(); });
        SIM_CHECK(sp.resume_called, "oracle:resumed-without-resume", "suspend point %d continued although resume() was never called for it", m);
        SIM_CHECK(sp.inside == 0 && sp.continued == 0, "oracle:resumed-twice", "suspend point %d continued a second time (or on two threads at once)", m);
        SIM_CHECK(!wait_returned, "oracle:wait-incomplete", "a suspended node body continued after graph::wait_for_all had returned");
        sp.inside++; sp.continued++; sim::upoint(); sp.inside--;
        ++finished;
        return m;
    };
    // the foreign resumers: wait for the tag, then (optionally) until nothing else can run, then resume
    std::vector<int> fids;
    int resumers_waiting = 0;
    sim::event all_parked;
    for (int m = 0; m < nmsg; ++m) fids.push_back(sim::spawn([&, m] {
        SP& q = sps[(size_t)m]; q.ready.wait();
        if (idle_first) { if (++resumers_waiting == nmsg) all_parked.signal(); else all_parked.wait(); }   // every body is suspended ...
        for (int i = 0; i < delay; ++i) sim::upoint();
        q.resume_called = true; tbb::task::resume(q.tag);
    }, "resumer"));
    // ... and then the arena goes idle: a helper waits for quiescence before the resumers go on
    int gate = -1;
    sim::event parked_and_idle;
    auto run = [&] {
        graph g;
        std::unique_ptr<function_node<int, int>> n;
        if (prio) n.reset(new function_node<int, int>(g, unlimited, body, node_priority_t(prio))); else n.reset(new function_node<int, int>(g, unlimited, body));
        for (int m = 0; m < nmsg; ++m) n->try_put(m);
        g.wait_for_all();
        wait_returned = true;
    };
    (void)gate; (void)parked_and_idle;
    if (conc) { tbb::task_arena a(conc); a.execute(run); } else run();
    SIM_CHECK(finished == nmsg, "oracle:wait-incomplete", "graph::wait_for_all returned with %d of %d suspended bodies finished", finished, nmsg);
    for (int m = 0; m < nmsg; ++m) SIM_CHECK(sps[(size_t)m].continued == 1, "oracle:never-resumed", "suspend point %d continued %d times", m, sps[(size_t)m].continued);
    for (int id : fids) sim::join(id);
}
