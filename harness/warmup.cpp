// One-time initialisation that uses std::call_once / dlopen is executed in the zygote, outside
// any fiber (DESIGN 6.1).  Compiled with the prelude.
#include "oneapi/tbb/cache_aligned_allocator.h"
#include "oneapi/tbb/tbb_allocator.h"

extern "C" void sim_zygote_warmup() {
    void* p = tbb::detail::r1::cache_aligned_allocate(64);
    tbb::detail::r1::cache_aligned_deallocate(p);
    void* q = tbb::detail::r1::allocate_memory(32);
    tbb::detail::r1::deallocate_memory(q);
}
