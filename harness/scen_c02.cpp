// C02 — no lost wake-up: (a) component scenarios on the real concurrent_monitor / binary_semaphore;
// (b) whole-runtime scenarios where the submitter of enqueued work never calls a TBB wait, arenas with no
// worker slot momentarily, zero-worker soft limit, arenas competing for workers, execute() on saturated arenas.
// The oracle is the simulator's deadlock / permanent-livelock criterion (no timing assumption).
#include "rt_common.h"
#include "oneapi/tbb/parallel_for.h"
#include "oneapi/tbb/task_group.h"
#include "tbb/concurrent_monitor.h"     // -I$(REPO)/src: the tree under test, not a fixed path

namespace {

void scen_monitor(hx::Desc& d) {
    using namespace tbb::detail::r1;
    int nsleepers = (int)sim::draw_range(1, 3, "sleepers");
    int nnotifiers = (int)sim::draw_range(1, 2, "notifiers");
    int mode = (int)sim::draw(4, "notify_mode");   // 0 notify_all, 1 notify(predicate on context), 2 notify_all again, 3 notify_one_relaxed(predicate): the address-waiter pattern of tbb::mutex
    int rounds = (int)sim::draw_range(1, 3, "rounds");
    d.add(hx::fmt("concurrent_monitor sleepers=%d notifiers=%d mode=%d rounds=%d tso=%d", nsleepers, nnotifiers, mode, rounds, (int)sim::g_cfg.tso));
    d.publish();
    struct Shared { concurrent_monitor mon; std::atomic<int> flag[3]; };
    Shared* sh = new Shared;
    for (auto& f : sh->flag) f.store(0, std::memory_order_relaxed);
    sim::tso_register(sh, sizeof(*sh));
    std::vector<std::function<void()>> fns;
    for (int s = 0; s < nsleepers; ++s) fns.push_back([&, s] {
        for (int r = 1; r <= rounds; ++r) {
            concurrent_monitor::thread_context ctx{(std::uintptr_t)(s + 1)};
            for (;;) {
                sh->mon.prepare_wait(ctx);
                if (sh->flag[s].load(std::memory_order_relaxed) >= r) { sh->mon.cancel_wait(ctx); break; }
                sim::upoint();
                if (sh->mon.commit_wait(ctx)) { /* woken: re-check */ }
            }
            SIM_CHECK(sh->flag[s].load(std::memory_order_relaxed) >= r, "oracle:wait-predicate", "sleeper %d left its wait with the predicate false", s);
        }
    });
    for (int n = 0; n < nnotifiers; ++n) fns.push_back([&, n] {
        for (int r = 1; r <= rounds; ++r) for (int s = n; s < nsleepers; s += nnotifiers) {
            static const int gaps[] = {0, 1, 2, 3, 25, 90, 250};      // long gaps: the sleepers are parked in the wait set when the state changes
            for (int i = 0, k = sim::draw_of(gaps, "gap"); i < k; ++i) sim::upoint();
            sh->flag[s].store(r, std::memory_order_relaxed);      // state change, then notify (the monitor supplies the fences)
            if (mode == 0) sh->mon.notify_all();
            else if (mode == 1) sh->mon.notify([s](std::uintptr_t c) { return c == (std::uintptr_t)(s + 1); });
            else if (mode == 3) {
                // several objects share one monitor, each sleeper waits for "its" object: exactly the matching sleeper must
                // be woken wherever it sits in the wait set (the caller supplies the store-load ordering, as mutex::unlock does)
                std::atomic_thread_fence(std::memory_order_seq_cst);
                sh->mon.notify_one_relaxed([s](std::uintptr_t c) { return c == (std::uintptr_t)(s + 1); });
            }
            else sh->mon.notify_all();   // notify_one is only correct with interchangeable sleepers; covered by mode 0/1
        }
    });
    hx::run_fibers(fns);
    sim::tso_unregister(sh, sizeof(*sh));
    delete sh;
}

void scen_runtime(hx::Desc& d) {
    int variant = (int)sim::draw(8, "variant");
    static const int ptsv[] = {0, 2, 10};
    int pts = sim::draw_of(ptsv, "points");
    switch (variant) {
    case 0: {   // enqueue into arenas of various shapes; submitters block on simulator events only
        int narenas = (int)sim::draw_range(1, 3, "narenas"), per = (int)sim::draw_range(1, 4, "per_arena");
        std::vector<tbb::task_arena*> ar; std::string s;
        for (int i = 0; i < narenas; ++i) { int mc = (int)sim::draw_range(1, 3, "maxc"); int rs = (int)sim::draw(2, "reserved"); if (rs >= mc && mc > 1) rs = mc - 1; ar.push_back(new tbb::task_arena(mc, (unsigned)rs)); s += hx::fmt(" (%d,%d)", mc, rs); }
        d.add(hx::fmt("enqueue-only arenas:%s tasks/arena=%d", s.c_str(), per)); d.publish();
        std::vector<sim::event*> evs;
        std::vector<std::function<void()>> fns;
        for (int i = 0; i < narenas; ++i) fns.push_back([&, i] { for (int k = 0; k < per; ++k) { auto* e = new sim::event; evs.push_back(e); ar[(size_t)i]->enqueue([e, pts] { for (int j = 0; j < pts; ++j) sim::upoint(); e->signal(); }); sim::upoint(); } });
        hx::run_fibers(fns);      // the submitting threads have exited
        for (size_t i = 0; i < evs.size(); ++i) evs[i]->wait();
        for (auto* a : ar) delete a;
        break;
    }
    case 1: {   // zero-worker soft limit: mandatory worker path
        d.add("global_control(max_allowed_parallelism=1) + enqueue"); d.publish();
        tbb::global_control gc(tbb::global_control::max_allowed_parallelism, 1);
        tbb::task_arena a((int)sim::draw_range(1, 3, "maxc"));
        int n = (int)sim::draw_range(1, 4, "n");
        std::vector<sim::event*> evs;
        for (int k = 0; k < n; ++k) { auto* e = new sim::event; evs.push_back(e); a.enqueue([e, pts] { for (int j = 0; j < pts; ++j) sim::upoint(); e->signal(); }); for (int j = 0; j < (int)sim::draw(30, "gap"); ++j) sim::upoint(); }
        for (auto* e : evs) e->wait();
        break;
    }
    case 2: {   // execute() on a saturated arena: waiters on the exit monitor must be woken when a slot frees up
        int users = (int)sim::draw_range(2, 4, "users"), mc = (int)sim::draw_range(1, 2, "maxc");
        d.add(hx::fmt("saturated execute: %d application threads into arena(%d)", users, mc)); d.publish();
        tbb::task_arena a(mc, (unsigned)mc > 1 ? 1u : 0u);
        int done = 0;
        std::vector<std::function<void()>> fns;
        for (int u = 0; u < users; ++u) fns.push_back([&] { for (int r = 0; r < 2; ++r) a.execute([&] { for (int j = 0; j < pts + 2; ++j) sim::upoint(); ++done; }); });
        hx::run_fibers(fns);
        SIM_CHECK(done == users * 2, "oracle:wait-incomplete", "execute() calls completed %d of %d functors", done, users * 2);
        break;
    }
    case 5: {   // fully reserved arena (n,n): no workers, no mandatory concurrency. One occupant dispatches for a
                // while and then stays put, the other occupants leave; the callers asleep in execute() are served only
                // by the wake-ups that leaving threads and finished delegates pass along.
        int n = (int)sim::draw_range(2, 3, "slots"), callers = (int)sim::draw_range(2, 4, "callers");
        int leavers = (int)sim::draw_range(1, n - 1, "leavers"), delta = (int)sim::draw(40, "delta"), go_delay = (int)sim::draw(300, "go_delay");
        d.add(hx::fmt("reserved arena(%d,%d): 1 dispatcher + %d parked (%d leave), %d callers, delta=%d go_delay=%d", n, n, n - 1, leavers, callers, delta, go_delay)); d.publish();
        tbb::task_arena a(n, (unsigned)n); a.initialize();
        tbb::task_group tg; tbb::task_handle hold = tg.defer([] {});
        sim::event leave, go, all_returned; std::vector<sim::event> in((size_t)n);
        bool fired = false; int returned = 0, ran = 0;
        std::vector<int> ids;
        for (int i = 0; i < n - 1; ++i) ids.push_back(sim::spawn([&, i] { a.execute([&, i] { in[(size_t)i].signal(); if (i < leavers) leave.wait(); else all_returned.wait(); }); }, "parked"));
        ids.push_back(sim::spawn([&] { a.execute([&] { in[(size_t)n - 1].signal(); go.wait(); tg.wait(); all_returned.wait(); }); }, "dispatcher"));
        for (auto& e : in) e.wait();
        for (int c = 0; c < callers; ++c) ids.push_back(sim::spawn([&, c] {
            for (int j = 0; j < c * 3; ++j) sim::upoint();
            a.execute([&] { ++ran; if (!fired) { fired = true; leave.signal(); for (int j = 0; j < delta; ++j) sim::upoint(); tg.run(std::move(hold)); } for (int j = 0; j < pts; ++j) sim::upoint(); });
            if (++returned == callers) all_returned.signal();
        }, "caller"));
        for (int j = 0; j < go_delay; ++j) sim::upoint();
        go.signal();
        for (int id : ids) sim::join(id);
        tg.wait();
        SIM_CHECK(ran == callers, "oracle:wait-incomplete", "execute() calls ran %d of %d functors", ran, callers);
        break;
    }
    case 6: {   // arenas of different priorities competing under a small worker limit: a "busy" arena whose owner has
                // spawned but not yet waited-for work (plain demand) polls, without any TBB wait, for the completion of
                // tasks enqueued into other arenas by threads that exit; the enqueued tasks must run whatever the
                // priorities are (mandatory worker when the limit leaves no worker at all)
        static const int limits[] = {1, 1, 2, 3, 0};
        int limit = sim::draw_of(limits, "limit");
        int ntargets = (int)sim::draw_range(1, 2, "targets"), per = (int)sim::draw_range(1, 3, "per_arena"), nspawn = (int)sim::draw_range(1, 3, "spawned");
        static const tbb::task_arena::priority pr[] = {tbb::task_arena::priority::low, tbb::task_arena::priority::normal, tbb::task_arena::priority::high};
        int bprio = (int)sim::draw(3, "busy_prio"), bmc = (int)sim::draw_range(1, 3, "busy_maxc");
        std::unique_ptr<tbb::global_control> gc;
        if (limit) gc.reset(new tbb::global_control(tbb::global_control::max_allowed_parallelism, (size_t)limit));
        tbb::task_arena busy(bmc, 1, pr[bprio]);
        std::vector<tbb::task_arena*> tg_ar; std::string s;
        for (int i = 0; i < ntargets; ++i) { int mc = (int)sim::draw_range(1, 3, "maxc"), p = (int)sim::draw(3, "prio"); tg_ar.push_back(new tbb::task_arena(mc, mc > 1 ? 1u : 0u, pr[p])); s += hx::fmt(" (max=%d,prio=%d)", mc, p); }
        bool enq_from_busy = sim::draw_bool("enqueue_from_busy");
        d.add(hx::fmt("priorities under limit %d: busy arena(max=%d,prio=%d) with %d un-waited spawned task(s) polls for %d task(s) enqueued into each of:%s%s", limit, bmc, bprio, nspawn, per, s.c_str(),
                      enq_from_busy ? " (enqueued by the busy thread itself)" : " (enqueued by threads that exit)")); d.publish();
        int total = ntargets * per, done = 0, spawned_ran = 0;
        auto enqueue_all = [&](int i) { for (int k = 0; k < per; ++k) { tg_ar[(size_t)i]->enqueue([&, pts] { for (int j = 0; j < pts; ++j) sim::upoint(); ++done; sim::changed(); }); sim::upoint(); } };
        std::vector<std::function<void()>> fns;
        fns.push_back([&] {
            busy.execute([&] {
                tbb::task_group g;
                for (int k = 0; k < nspawn; ++k) g.run([&] { for (int j = 0; j < pts; ++j) sim::upoint(); ++spawned_ran; });
                if (enq_from_busy) for (int i = 0; i < ntargets; ++i) enqueue_all(i);
                while (done < total) sim::point(sim::K_YIELD, nullptr);     // not a TBB wait: the thread never helps the target arenas
                g.wait();
            });
        });
        if (!enq_from_busy) for (int i = 0; i < ntargets; ++i) fns.push_back([&, i] { for (int j = 0; j < i * 7; ++j) sim::upoint(); enqueue_all(i); });
        hx::run_fibers(fns);
        SIM_CHECK(done == total && spawned_ran == nspawn, "oracle:wait-incomplete", "%d of %d enqueued and %d of %d spawned tasks ran", done, total, spawned_ran, nspawn);
        for (auto* a : tg_ar) delete a;
        break;
    }
    case 7: {   // the worker limit DROPS to "no worker at all" while enqueued work is pending and every worker is asleep:
                // the pending task still has to run (mandatory worker), and so do tasks enqueued afterwards
        int shape = (int)sim::draw(2, "shape"), n = (int)sim::draw_range(1, 3, "n"), gap = (int)sim::draw(25, "gap"), later = (int)sim::draw(3, "later");
        d.add(hx::fmt("limit drops to 1 after the enqueue, workers asleep: %s, %d task(s), gap=%d, %d enqueued afterwards", shape ? "enqueue from inside the only slot of arena(1,0)" : "enqueue into an idle arena", n, gap, later)); d.publish();
        tbb::parallel_for(0, 2 * sim::g_cfg.P, [](int) { for (int i = 0; i < 10; ++i) sim::upoint(); }, tbb::simple_partitioner());   // the workers exist ...
        sim::wait_quiescent();                                                                                                         // ... and are all asleep
        std::vector<sim::event*> evs;
        std::unique_ptr<tbb::global_control> gc;
        auto task = [pts](sim::event* e) { return [e, pts] { for (int j = 0; j < pts; ++j) sim::upoint(); e->signal(); }; };
        if (shape) {
            tbb::task_arena a(1, 0);
            a.execute([&] {
                for (int k = 0; k < n; ++k) { evs.push_back(new sim::event); a.enqueue(task(evs.back())); }
                for (int j = 0; j < gap; ++j) sim::upoint();
                gc.reset(new tbb::global_control(tbb::global_control::max_allowed_parallelism, 1));
            });
            for (int k = 0; k < later; ++k) { evs.push_back(new sim::event); a.enqueue(task(evs.back())); }
            for (auto* e : evs) e->wait();
        } else {
            tbb::task_arena a((int)sim::draw_range(1, 3, "maxc"));
            for (int k = 0; k < n; ++k) { evs.push_back(new sim::event); a.enqueue(task(evs.back())); }
            for (int j = 0; j < gap; ++j) sim::upoint();
            gc.reset(new tbb::global_control(tbb::global_control::max_allowed_parallelism, 1));
            for (int k = 0; k < later; ++k) { evs.push_back(new sim::event); a.enqueue(task(evs.back())); }
            for (auto* e : evs) e->wait();
        }
        break;
    }
    case 3: {   // task_group whose last task finishes on another thread while the owner is about to sleep
        int n = (int)sim::draw_range(1, 5, "n");
        d.add(hx::fmt("task_group wait with %d tasks of %d points", n, pts * 8)); d.publish();
        tbb::task_group tg; int ran = 0;
        for (int k = 0; k < n; ++k) tg.run([&] { for (int j = 0; j < pts * 8; ++j) sim::upoint(); ++ran; });
        tg.wait();
        SIM_CHECK(ran == n, "oracle:wait-incomplete", "wait returned with %d of %d tasks done", ran, n);
        break;
    }
    default: {  // workers told to leave while work is advertised: alternate short bursts of work and idleness
        int bursts = (int)sim::draw_range(2, 4, "bursts");
        d.add(hx::fmt("bursts=%d of parallel_for with idle gaps", bursts)); d.publish();
        for (int b = 0; b < bursts; ++b) {
            int visited = 0;
            tbb::parallel_for(0, 6, [&](int) { for (int j = 0; j < pts; ++j) sim::upoint(); ++visited; });
            SIM_CHECK(visited == 6, "oracle:wait-incomplete", "burst %d visited %d of 6", b, visited);
            for (int j = 0; j < (int)sim::draw(400, "idle"); ++j) sim::upoint();     // workers drift towards sleep
            auto* e = new sim::event;
            tbb::task_arena a(2); a.enqueue([e] { e->signal(); });
            e->wait();
        }
        break;
    }
    }
}

}  // namespace

SIM_SCENARIO(scen_c02, "c02", "C02", 4000000, 15000) {
    hx::Desc d;
    hx::draw_runtime_config(d, 8, /*allow_warm=*/false);   // cold arenas are the point of these scenarios; variant 4 warms by itself
    sim::g_cfg.tso = sim::draw_bool("tso");
    sim::set_allotment_observer([](int soft, int mand, int total, int n, const int* level, const int* minw, const int* maxw, const int* allot) {
        hx::check_mandatory_allotment(soft, mand, total, n, level, minw, maxw, allot); });
    if (sim::draw(3, "layer") == 0) scen_monitor(d); else scen_runtime(d);
    sim::set_allotment_observer(nullptr);
}
