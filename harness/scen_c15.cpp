// C15 — flow-graph buffering / ordering / joining / limiting nodes keep their contracts: one node under test
// between 1-3 putting threads and a serial recording sink (or a pulling consumer for reservable nodes).
#include "rt_common.h"
#include "oneapi/tbb/flow_graph.h"

namespace {
using namespace tbb::flow;

struct Rec { std::vector<int> order; int running = 0; int points = 0; };
Rec* R = nullptr;
continue_msg record(int m) {
    SIM_CHECK(R->running == 0, "oracle:serial-sink", "serial sink entered concurrently");
    R->running++; R->order.push_back(m);
    for (int i = 0; i < R->points; ++i) sim::upoint();
    R->running--; return continue_msg();
}

struct Msg { int key; int id; };

template <class Target>
void put_concurrently(Target& t, const std::vector<std::vector<int>>& per_thread, std::vector<std::pair<int, uint64_t>>* accept_stamp = nullptr) {
    std::vector<std::function<void()>> fns;
    for (auto& v : per_thread) fns.push_back([&t, &v, accept_stamp] {
        for (int m : v) { sim::upoint(); bool ok = t.try_put(m); if (ok && accept_stamp) accept_stamp->push_back({m, sim::step()}); SIM_CHECK(ok, "oracle:unexpected-reject", "try_put(%d) rejected by a buffering node", m); }
    });
    hx::run_fibers(fns);
}

std::vector<std::vector<int>> split_msgs(int n, int threads, bool shuffle) {
    std::vector<int> ids(n);
    for (int i = 0; i < n; ++i) ids[i] = i;
    if (shuffle) for (int i = n - 1; i > 0; --i) std::swap(ids[i], ids[(int)sim::draw((uint64_t)i + 1, "perm")]);
    std::vector<std::vector<int>> out((size_t)threads);
    for (int i = 0; i < n; ++i) out[(size_t)(i % threads)].push_back(ids[i]);
    return out;
}
}  // namespace

SIM_SCENARIO(scen_c15, "c15", "C15", 6000000, 30000) {
    hx::Desc d;
    hx::draw_runtime_config(d);
    Rec rec; R = &rec;
    static const int ptsv[] = {0, 2, 8};
    rec.points = sim::draw_of(ptsv, "points");
    int kind = (int)sim::draw(11, "node");
    int threads = (int)sim::draw_range(1, 3, "putters");
    static const int ncounts[] = {1, 2, 3, 4, 5, 6, 7, 8, 9, 10, 11, 12, 17, 20, 33, 40};
    int n = sim::draw_of(ncounts, "messages");      // > 8 / > 16: item buffers wrap and grow with a non-zero head
    static const char* const kn[] = {"queue_node", "sequencer_node", "priority_queue_node", "join<queueing>", "join<key_matching>", "join<reserving>", "limiter_node", "overwrite_node", "write_once_node", "split/indexer", "buffer reservation"};
    d.add(hx::fmt("%s putters=%d messages=%d sink_points=%d", kn[kind], threads, n, rec.points));
    d.publish();
    graph g;
    function_node<int, continue_msg, queueing> sink(g, serial, [](int m) { return record(m); });
    switch (kind) {
    case 0: {   // queue_node: FIFO by acceptance order (per putter order is preserved; across putters by stamp of acceptance)
        // the consumer is either a queueing sink (push mode) or a slow rejecting serial node (the queue keeps the
        // items, the edge flips to pull mode, the ring buffer wraps while items leave one at a time)
        bool pull = sim::draw_bool("rejecting_consumer");
        // the hand-over order is recorded where the queue's items are taken (slow's serial body): a serial
        // function_node releases its next input before it forwards its output, so outputs of `slow` may legitimately
        // overtake each other on the way to the sink and the sink's log says nothing about the queue
        std::vector<int> taken; int in_slow = 0;
        function_node<int, int, rejecting> slow(g, serial, [&](int m) { SIM_CHECK(in_slow++ == 0, "oracle:serial-sink", "serial rejecting node entered concurrently"); taken.push_back(m); for (int i = 0; i < 6; ++i) sim::upoint(); --in_slow; return m; });
        queue_node<int> q(g);
        if (pull) { make_edge(q, slow); make_edge(slow, sink); } else make_edge(q, sink);
        auto msgs = split_msgs(n, threads, false);
        put_concurrently(q, msgs);
        g.wait_for_all();
        SIM_CHECK((int)rec.order.size() == n, "oracle:message-lost", "queue_node delivered %zu of %d messages", rec.order.size(), n);
        if (pull) SIM_CHECK((int)taken.size() == n, "oracle:message-lost", "queue_node handed %zu of %d messages to its pulling successor", taken.size(), n);
        const std::vector<int>& order = pull ? taken : rec.order;
        for (auto& v : msgs) { int last = -1; for (int m : order) if (std::find(v.begin(), v.end(), m) != v.end()) { SIM_CHECK(m > last, "oracle:fifo", "queue_node reordered messages of one putter (%d after %d)", m, last); last = m; } }
        std::set<int> u(rec.order.begin(), rec.order.end()); SIM_CHECK((int)u.size() == n, "oracle:message-twice", "queue_node duplicated a message");
        break;
    }
    case 1: {   // sequencer_node: exactly 0,1,2,... in order for any arrival permutation; items below the head are rejected
        sequencer_node<int> s(g, [](const int& m) -> size_t { return (size_t)m; }); make_edge(s, sink);
        auto msgs = split_msgs(n, threads, true);
        put_concurrently(s, msgs);
        g.wait_for_all();
        SIM_CHECK((int)rec.order.size() == n, "oracle:message-lost", "sequencer_node delivered %zu of %d messages", rec.order.size(), n);
        for (int i = 0; i < n; ++i) SIM_CHECK(rec.order[(size_t)i] == i, "oracle:sequence", "sequencer_node emitted %d at position %d", rec.order[(size_t)i], i);
        SIM_CHECK(!s.try_put(0), "oracle:sequence", "sequencer_node accepted sequence number 0 again (below its head)");
        break;
    }
    case 2: {   // priority_queue_node: with a slow serial sink, each hand-over takes a highest-priority buffered item
        priority_queue_node<int> pq(g);
        // pull side: consumer pulls with try_get while putters push; each pull must return the max of what is buffered
        std::multiset<int> buffered; int pulled = 0;
        auto msgs = split_msgs(n, threads, true);
        std::vector<std::function<void()>> fns;
        for (auto& v : msgs) fns.push_back([&pq, &v] { for (int m : v) { sim::upoint(); bool ok = pq.try_put(m); SIM_CHECK(ok, "oracle:unexpected-reject", "priority_queue_node rejected a put"); } });
        // consumers that take items WHILE the putters push (try_get, or try_reserve followed by try_release / try_consume): pushes
        // and pops meet in one batch of the node's aggregator; whatever they take, the items that stay must still come out
        // highest first afterwards, and every item exactly once
        std::vector<int> taken;
        int ngetters = (int)sim::draw(3, "getters");
        for (int gt = 0; gt < ngetters; ++gt) fns.push_back([&, gt] {
            for (int k = 0; k < 2 + n / 3; ++k) {
                sim::upoint(); int x = -1;
                if ((k + gt) % 3 == 0) { if (pq.try_get(x)) taken.push_back(x); }
                else if (pq.try_reserve(x)) { for (int i = 0; i < 2; ++i) sim::upoint(); if ((k + gt) % 3 == 1) pq.try_release(); else { pq.try_consume(); taken.push_back(x); } }
            }
        });
        hx::run_fibers(fns);
        g.wait_for_all();
        for (int i = 0; i < n; ++i) buffered.insert(i);
        for (int x : taken) { auto it = buffered.find(x); SIM_CHECK(it != buffered.end(), "oracle:message-twice", "priority_queue_node handed item %d out twice (or invented it)", x); buffered.erase(it); ++pulled; }
        int v;
        while (pq.try_get(v)) { SIM_CHECK(!buffered.empty() && v == *buffered.rbegin(), "oracle:priority", "priority_queue_node handed over %d while %d is buffered", v, buffered.empty() ? -1 : *buffered.rbegin()); buffered.erase(buffered.find(v)); ++pulled; }
        SIM_CHECK(pulled == n && buffered.empty(), "oracle:message-lost", "priority_queue_node delivered %d of %d", pulled, n);
        break;
    }
    case 3: case 4: case 5: {   // join_node policies
        int tuples = 0;
        std::vector<std::pair<int, int>> got;
        function_node<std::tuple<int, int>, continue_msg, queueing> tsink(g, serial, [&](const std::tuple<int, int>& t) -> continue_msg { ++tuples; got.push_back({std::get<0>(t), std::get<1>(t)}); for (int i = 0; i < rec.points; ++i) sim::upoint(); return continue_msg(); });
        auto a = split_msgs(n, 1, kind == 4), b = split_msgs(n, 1, kind == 4);
        if (kind == 3) {
            join_node<std::tuple<int, int>, queueing> j(g); make_edge(j, tsink);
            std::vector<std::function<void()>> fns;
            fns.push_back([&] { for (int m : a[0]) { sim::upoint(); input_port<0>(j).try_put(m); } });
            fns.push_back([&] { for (int m : b[0]) { sim::upoint(); input_port<1>(j).try_put(m + 100); } });
            hx::run_fibers(fns); g.wait_for_all();
            SIM_CHECK(tuples == n, "oracle:join-tuple", "queueing join emitted %d tuples for %d pairs", tuples, n);
            for (int i = 0; i < n; ++i) SIM_CHECK(got[(size_t)i].first == i && got[(size_t)i].second == i + 100, "oracle:join-tuple", "tuple %d is (%d,%d), expected the %d-th message of every port", i, got[(size_t)i].first, got[(size_t)i].second, i);
        } else if (kind == 4) {
            join_node<std::tuple<int, int>, key_matching<int>> j(g, [](int m) { return m % 100; }, [](int m) { return m % 100; }); make_edge(j, tsink);
            std::vector<std::function<void()>> fns;
            fns.push_back([&] { for (int m : a[0]) { sim::upoint(); input_port<0>(j).try_put(m); } });
            fns.push_back([&] { for (int m : b[0]) { sim::upoint(); input_port<1>(j).try_put(m + 100); } });
            hx::run_fibers(fns); g.wait_for_all();
            SIM_CHECK(tuples == n, "oracle:join-tuple", "key_matching join emitted %d tuples for %d keys", tuples, n);
            std::set<int> keys;
            for (auto& p : got) { SIM_CHECK(p.first % 100 == p.second % 100, "oracle:join-tuple", "key_matching tuple mixes keys %d and %d", p.first, p.second); SIM_CHECK(keys.insert(p.first % 100).second, "oracle:join-tuple", "key %d used twice", p.first % 100); }
        } else {
            // reserving: inputs are consumed only when every port can be reserved
            join_node<std::tuple<int, int>, reserving> j(g);
            queue_node<int> qa(g), qb(g);
            make_edge(qa, input_port<0>(j)); make_edge(qb, input_port<1>(j)); make_edge(j, tsink);
            int nb = (int)sim::draw_range(0, n, "second_port_count");
            std::vector<std::function<void()>> fns;
            fns.push_back([&] { for (int m : a[0]) { sim::upoint(); qa.try_put(m); } });
            fns.push_back([&] { for (int i = 0; i < nb; ++i) { sim::upoint(); qb.try_put(i + 100); } });
            hx::run_fibers(fns); g.wait_for_all();
            SIM_CHECK(tuples == nb, "oracle:join-tuple", "reserving join emitted %d tuples although only %d complete pairs exist", tuples, nb);
            // the unpaired inputs are still available upstream (reservations were released)
            int left = 0, v; while (qa.try_get(v)) { SIM_CHECK(v == nb + left, "oracle:message-lost", "unconsumed input %d out of order after released reservations", v); ++left; }
            SIM_CHECK(left == n - nb, "oracle:message-lost", "%d unpaired inputs remain upstream, expected %d", left, n - nb);
        }
        break;
    }
    case 6: if (sim::draw(3, "batch_decrement") == 0) {
        // limiter_node<int,int>: integral decrement messages that acknowledge several forwarded messages at once, sent by
        // the successor's body (re-entrantly, while the put is still in flight if the body is lightweight) and by an
        // external thread, racing the puts.  received - acknowledged <= threshold at every receive (acknowledged is
        // raised before the decrement is sent, so the measure never exceeds the limiter's own forwarded - decremented);
        // at the end, everything acknowledged, exactly `threshold` further puts are accepted.
        int threshold = (int)sim::draw_range(2, 4, "threshold");
        // (a lightweight body runs inside the limiter's try_put, under the lock of the limiter's successor cache: a
        //  decrement sent from there re-enters the limiter on the same thread and spins on that lock for ever when the
        //  limiter has a cached predecessor; such a feedback from inside a lightweight body is not a legal program here)
        bool lw = sim::draw_bool("lightweight"), body_acks = sim::draw_bool("body_acks") && !lw;
        int ack_gap = (int)sim::draw(20, "ack_gap");
        int batch = (int)sim::draw_range(2, threshold, "batch");      // an acknowledgement covers at least this many messages (the main thread flushes the rest at quiescence)
        limiter_node<int, int> lim(g, (size_t)threshold);
        queue_node<int> q(g);
        int received = 0, acked = 0; bool tail_phase = false; int tail_received = 0; sim::event* notify_got = nullptr;
        auto ack_all = [&] { int k = received - acked; if (k > 0) { acked += k; sim::note("ack %d (acked=%d received=%d)", k, acked, received); lim.decrementer().try_put(k); sim::note("ack %d done", k); } };
        auto body = [&](int m) noexcept -> continue_msg {      // noexcept: otherwise oneTBB ignores the lightweight policy
            if (tail_phase) { ++tail_received; return continue_msg(); }
            ++received;
            sim::note("received m=%d (received=%d acked=%d)", m, received, acked);
            if (notify_got) notify_got->signal();
            SIM_CHECK(received - acked <= threshold, "oracle:limiter", "limiter_node<int,int> forwarded message %d while %d forwarded messages are not yet acknowledged (threshold %d)", m, received - acked - 1, threshold);
            rec.order.push_back(m);
            for (int i = 0; i < rec.points; ++i) sim::upoint();
            if (body_acks && received - acked >= batch) ack_all();
            return continue_msg(); };
        std::unique_ptr<function_node<int, continue_msg, queueing>> w1; std::unique_ptr<function_node<int, continue_msg, queueing_lightweight>> w2;
        make_edge(q, lim);
        if (lw) { w2.reset(new function_node<int, continue_msg, queueing_lightweight>(g, unlimited, body)); make_edge(lim, *w2); }
        else { w1.reset(new function_node<int, continue_msg, queueing>(g, unlimited, body)); make_edge(lim, *w1); }
        auto msgs = split_msgs(n, threads, false);
        std::vector<std::function<void()>> fns;
        for (auto& v : msgs) fns.push_back([&q, &v] { for (int m : v) { sim::upoint(); q.try_put(m); } });
        // the external acknowledger sleeps until a message arrives (no polling: the end of the run is judged at
        // quiescence, without any step or round limit)
        bool stop = false; sim::event got;
        int acker = sim::spawn([&] { for (;;) { got.wait(); got.flag = false; if (stop) break; for (int i = 0; i < ack_gap; ++i) sim::upoint(); if (received - acked >= batch) ack_all(); } }, "acker");
        notify_got = &got;
        hx::run_fibers(fns);
        for (;;) {
            g.wait_for_all(); ack_all();
            if (received >= n) break;
            int before = received;
            sim::wait_quiescent();          // every other thread is asleep or done: nothing is in flight any more
            g.wait_for_all(); ack_all(); g.wait_for_all();
            if (received == before && acked == received)
                sim::fail("oracle:message-lost", "limiter_node<int,int> path delivered %d of %d messages; every delivered message is acknowledged, every thread is idle and the rest stays in the queue_node", received, n);
        }
        stop = true; got.signal(); sim::join(acker); notify_got = nullptr;
        g.wait_for_all(); ack_all(); g.wait_for_all();
        SIM_CHECK(acked == received, "tool:harness", "acknowledgement bookkeeping");
        SIM_CHECK(received == n, "oracle:message-lost", "limiter_node<int,int> path delivered %d of %d messages", received, n);
        std::set<int> u(rec.order.begin(), rec.order.end()); SIM_CHECK((int)u.size() == n, "oracle:message-twice", "limiter path duplicated a message");
        tail_phase = true;
        int accepted = 0;
        for (int i = 0; i < threshold + 2; ++i) { if (lim.try_put(1000 + i)) ++accepted; g.wait_for_all(); }
        sim::note("tail: accepted=%d tail_received=%d threshold=%d", accepted, tail_received, threshold);
        SIM_CHECK(accepted == threshold && tail_received == threshold, "oracle:limiter", "after every forwarded message was acknowledged the limiter accepted %d (forwarded %d) further messages, its threshold is %d", accepted, tail_received, threshold);
        sim::probe("limiter:batch-decrement");
        break;
    } else {   // limiter_node: forwarded - decremented <= threshold at every step, decrements racing puts, nothing lost
        int threshold = (int)sim::draw_range(1, 3, "threshold");
        limiter_node<int> lim(g, (size_t)threshold);
        queue_node<int> q(g);
        int in_flight = 0, max_in_flight = 0, done = 0;
        // concurrent slow stage behind the limiter; its completion message feeds the decrement port (one decrement
        // per consumed message: the feedback pattern whose arithmetic never clamps)
        function_node<int, continue_msg, queueing> work(g, unlimited, [&](int m) -> continue_msg {
            ++in_flight; if (in_flight > max_in_flight) max_in_flight = in_flight;
            SIM_CHECK(in_flight <= threshold, "oracle:limiter", "limiter_node forwarded message %d while %d forwarded messages are not yet decremented (threshold %d)", m, in_flight - 1, threshold);
            for (int i = 0; i < rec.points + 2; ++i) sim::upoint();
            rec.order.push_back(m); ++done; --in_flight;
            return continue_msg(); });
        make_edge(q, lim); make_edge(lim, work); make_edge(work, lim.decrementer());
        auto msgs = split_msgs(n, threads, false);
        std::vector<std::function<void()>> fns;
        for (auto& v : msgs) fns.push_back([&q, &v] { for (int m : v) { sim::upoint(); q.try_put(m); } });
        hx::run_fibers(fns);
        g.wait_for_all();
        SIM_CHECK(done == n, "oracle:message-lost", "limiter path delivered %d of %d messages (a message was lost when a decrement freed capacity)", done, n);
        std::set<int> u(rec.order.begin(), rec.order.end()); SIM_CHECK((int)u.size() == n, "oracle:message-twice", "limiter path duplicated a message");
        if (max_in_flight >= 2) sim::probe("limiter:several-in-flight");
        break;
    }
    case 7: case 8: {   // overwrite_node / write_once_node deliver latest / first value to present and future successors
        if (kind == 7) {
            overwrite_node<int> o(g); make_edge(o, sink);
            for (int i = 0; i < n; ++i) o.try_put(i);
            g.wait_for_all();
            int v = -1; SIM_CHECK(o.try_get(v) && v == n - 1, "oracle:overwrite", "overwrite_node holds %d, last written %d", v, n - 1);
            std::vector<int> late; function_node<int, continue_msg, queueing> s2(g, serial, [&](int m) -> continue_msg { late.push_back(m); return continue_msg(); });
            make_edge(o, s2); g.wait_for_all();
            SIM_CHECK(late.size() == 1 && late[0] == n - 1, "oracle:overwrite", "a successor added later received %zu values (first %d), expected the latest value %d", late.size(), late.empty() ? -1 : late[0], n - 1);
            SIM_CHECK((int)rec.order.size() == n, "oracle:message-lost", "present successor received %zu of %d values", rec.order.size(), n);
            // a successor attached WHILE values arrive: it must end up with the latest value, and see values in the order written
            std::vector<int> live; function_node<int, continue_msg, queueing> s3(g, serial, [&](int m) -> continue_msg { live.push_back(m); return continue_msg(); });
            int gap = (int)sim::draw(30, "attach_gap"), more = (int)sim::draw_range(1, 6, "more_values");
            std::vector<std::function<void()>> fns;
            fns.push_back([&] { for (int i = 0; i < more; ++i) { sim::upoint(); o.try_put(n + i); } });
            fns.push_back([&] { for (int i = 0; i < gap; ++i) sim::upoint(); make_edge(o, s3); });
            hx::run_fibers(fns); g.wait_for_all();
            int last = n + more - 1;
            SIM_CHECK(o.try_get(v) && v == last, "oracle:overwrite", "overwrite_node holds %d, last written %d", v, last);
            SIM_CHECK(!live.empty() && live.back() == last, "oracle:overwrite", "a successor attached while values arrived ended up with %d, the node holds the latest value %d", live.empty() ? -1 : live.back(), last);
            for (size_t i = 1; i < live.size(); ++i) SIM_CHECK(live[i - 1] < live[i], "oracle:overwrite", "a successor attached while values arrived received %d after %d", live[i], live[i - 1]);
        } else {
            write_once_node<int> o(g); make_edge(o, sink);
            auto msgs = split_msgs(n, threads, false);
            std::vector<std::function<void()>> fns; int accepted = 0;
            for (auto& v : msgs) fns.push_back([&o, &v, &accepted] { for (int m : v) { sim::upoint(); if (o.try_put(m)) ++accepted; } });
            hx::run_fibers(fns); g.wait_for_all();
            SIM_CHECK(accepted == 1, "oracle:write-once", "write_once_node accepted %d values", accepted);
            int v = -1; SIM_CHECK(o.try_get(v), "oracle:write-once", "write_once_node holds no value");
            SIM_CHECK(rec.order.size() == 1 && rec.order[0] == v, "oracle:write-once", "successor received %zu values", rec.order.size());
        }
        break;
    }
    case 9: {   // split_node routes element i to port i; indexer_node tags by port
        std::vector<int> p0, p1;
        function_node<int, continue_msg, queueing> s0(g, serial, [&](int m) -> continue_msg { p0.push_back(m); return continue_msg(); });
        function_node<int, continue_msg, queueing> s1(g, serial, [&](int m) -> continue_msg { p1.push_back(m); return continue_msg(); });
        split_node<std::tuple<int, int>> sp(g); make_edge(output_port<0>(sp), s0); make_edge(output_port<1>(sp), s1);
        std::vector<std::function<void()>> fns;
        for (int t = 0; t < threads; ++t) fns.push_back([&, t] { for (int m = t; m < n; m += threads) { sim::upoint(); sp.try_put(std::make_tuple(m, m + 100)); } });
        hx::run_fibers(fns); g.wait_for_all();
        SIM_CHECK((int)p0.size() == n && (int)p1.size() == n, "oracle:routing", "split_node delivered %zu/%zu of %d", p0.size(), p1.size(), n);
        for (int m : p0) SIM_CHECK(m < 100, "oracle:routing", "element 1 of a tuple arrived at port 0");
        for (int m : p1) SIM_CHECK(m >= 100, "oracle:routing", "element 0 of a tuple arrived at port 1");
        using IN = indexer_node<int, int>;
        IN in(g); int t0 = 0, t1 = 0;
        function_node<IN::output_type, continue_msg, queueing> is(g, serial, [&](const IN::output_type& m) -> continue_msg {
            if (m.tag() == 0) { ++t0; SIM_CHECK(cast_to<int>(m) < 100, "oracle:routing", "indexer tag 0 carries a port-1 value"); } else { ++t1; SIM_CHECK(cast_to<int>(m) >= 100, "oracle:routing", "indexer tag 1 carries a port-0 value"); }
            return continue_msg(); });
        make_edge(in, is);
        for (int m = 0; m < n; ++m) { input_port<0>(in).try_put(m); input_port<1>(in).try_put(m + 100); }
        g.wait_for_all();
        SIM_CHECK(t0 == n && t1 == n, "oracle:routing", "indexer_node delivered %d/%d of %d", t0, t1, n);
        break;
    }
    default: {  // buffer reservation: released items are not lost, consumed items never come back, also while puts
                // arrive and while a push successor competes with the reserving parties for the same front item
        int which = (int)sim::draw(3, "reservable_node");      // queue_node, buffer_node, sequencer_node
        bool push_succ = sim::draw_bool("push_successor");
        int prefill = (int)sim::draw_range(0, n, "prefill");
        queue_node<int> qn(g); buffer_node<int> bn(g); sequencer_node<int> sn(g, [](const int& m) -> size_t { return (size_t)m; });
        sender<int>* snd = which == 0 ? static_cast<sender<int>*>(&qn) : which == 1 ? static_cast<sender<int>*>(&bn) : static_cast<sender<int>*>(&sn);
        receiver<int>* rcv = which == 0 ? static_cast<receiver<int>*>(&qn) : which == 1 ? static_cast<receiver<int>*>(&bn) : static_cast<receiver<int>*>(&sn);
        if (push_succ) make_edge(*snd, sink);
        for (int i = 0; i < prefill; ++i) rcv->try_put(i);
        std::vector<int> consumed; bool putter_done = false;
        std::vector<std::function<void()>> fns;
        fns.push_back([&] { for (int i = prefill; i < n; ++i) { sim::upoint(); bool ok = rcv->try_put(i); SIM_CHECK(ok, "oracle:unexpected-reject", "try_put(%d) rejected by a buffering node", i); } putter_done = true; });
        for (int t = 0; t < threads; ++t) fns.push_back([&] {
            for (int k = 0; k < n + 2 || (!putter_done && k < 4 * n + 8); ++k) {
                int v = -1; sim::upoint();
                if (snd->try_reserve(v)) {
                    sim::probe("reserve:held"); sim::upoint(); if (sim::draw_bool("hold_longer")) for (int i = 0; i < 5; ++i) sim::upoint();
                    if (sim::draw(3, "release") == 0) snd->try_release(); else { snd->try_consume(); consumed.push_back(v); }
                }
            }
        });
        hx::run_fibers(fns);
        g.wait_for_all();     // forwarding tasks spawned by the puts must be finished before the node goes out of scope
        int v; while (snd->try_get(v)) consumed.push_back(v);
        g.wait_for_all();
        if (push_succ && !rec.order.empty() && consumed.size() > 0) sim::probe("reserve:raced-push-successor");
        std::vector<int> all(consumed); all.insert(all.end(), rec.order.begin(), rec.order.end());
        std::sort(all.begin(), all.end());
        for (size_t i = 1; i < all.size(); ++i) SIM_CHECK(all[i] != all[i - 1], "oracle:message-twice", "item %d came out of the %s twice (reserved item also forwarded, or consumed item handed out again)", all[i], which == 0 ? "queue_node" : which == 1 ? "buffer_node" : "sequencer_node");
        SIM_CHECK((int)all.size() == n, "oracle:message-lost", "%zu of %d items came out of the buffer (released items lost or a consume destroyed an item nobody received)", all.size(), n);
        if (which != 1 && push_succ) { /* FIFO/sequence order is per receiving party only; the sink log of a queue/sequencer is increasing */
            for (size_t i = 1; i < rec.order.size(); ++i) SIM_CHECK(rec.order[i] > rec.order[i - 1], "oracle:fifo", "push successor received %d after %d", rec.order[i], rec.order[i - 1]); }
        break;
    }
    }
    R = nullptr;
}
