// C01 — every submitted unit runs exactly once (or is skipped exactly once in a cancelled group);
// a wait covers all work of its group, transitively, and the waiter sees its writes.
#include "rt_common.h"
#include "oneapi/tbb/parallel_for.h"
#include "oneapi/tbb/blocked_range.h"
#include "oneapi/tbb/partitioner.h"

namespace {

enum NK { LEAF, GROUP, PFOR, EXEC, ENQ, ISOLATE, SUBMIT };
struct Node {
    NK k = LEAF;
    int points = 0, n = 0, grain = 1, part = 0, arena = 0, unit0 = -1, id = 0;
    bool last_run_and_wait = false, cancel = false;
    std::vector<Node> kids;
    std::vector<int> units;  // all units of the subtree
};

struct World {
    hx::Units units;
    std::vector<tbb::task_arena*> arenas;
    std::vector<sim::event*> pending;       // enqueued subtrees
    std::vector<const Node*> pending_nodes;
    int fn_live = 0;                         // live copies of task functors
    int budget = 40;
    int next_node = 0;
    unsigned kind_mask = 0x7f;
};
World* W = nullptr;

// counted functor wrapper: constructions == destructions at the end
struct Fn {
    std::function<void()>* f;
    explicit Fn(std::function<void()>* p) : f(p) { ++W->fn_live; }
    Fn(const Fn& o) : f(o.f) { ++W->fn_live; }
    ~Fn() { --W->fn_live; }
    void operator()() const { (*f)(); }
};

// top_arena: index of the innermost explicit arena the running thread is in (-1: none).  Nested
// execute() only goes to the same arena (inline) or to a higher-numbered one: a thread that holds a slot
// of arena A and blocks in execute() on a saturated arena B while a thread in B does the converse is a
// lock-order deadlock of the *program*, which must not be reported as a lost wake-up.
void gen(Node& nd, int depth, hx::Desc& d, std::string& txt, bool canc = false, int top_arena = -1) {
    World& w = *W;
    nd.id = w.next_node++;
    // weights: leaf 2, group 2, pfor 1, exec 1, enq 1, isolate 2, submit 1 (submit needs an enclosing group)
    static const int kinds[] = {0, 0, 1, 1, 2, 3, 4, 5, 5, 6};
    int choice = depth >= 5 || w.budget <= 2 ? 0 : kinds[sim::draw(10, "node")];
    // swarm: each run enables a random subset of node kinds (bit k of kind_mask: kind k allowed)
    if (choice && !(w.kind_mask & (1u << choice))) choice = (w.kind_mask & 2u) && depth < 4 ? 1 : 0;
    switch (choice) {
    default:
    case 0: case 7: {
        static const int pts[] = {0, 1, 3, 10, 40, 150}; nd.k = LEAF; nd.points = pts[sim::draw(6, "points")]; nd.unit0 = w.units.add(canc); nd.units = {nd.unit0}; w.budget--;
        txt += hx::fmt("L%d/%d", nd.unit0, nd.points);
        break;
    }
    case 1: case 6: {
        nd.k = (choice == 6 && depth > 0) ? SUBMIT : GROUP;
        int nk = (int)sim::draw_range(1, 4, "kids");
        nd.last_run_and_wait = sim::draw_bool("raw");
        nd.cancel = nd.k == GROUP && sim::draw(6, "cancel") == 0;
        canc = canc || nd.cancel;
        txt += nd.k == GROUP ? (nd.cancel ? "Gc(" : nd.last_run_and_wait ? "Gw(" : "G(") : "S(";
        for (int i = 0; i < nk && w.budget > 0; ++i) {
            nd.kids.emplace_back();
            if (i) txt += " ";
            gen(nd.kids.back(), depth + 1, d, txt, canc, top_arena);
            nd.units.insert(nd.units.end(), nd.kids.back().units.begin(), nd.kids.back().units.end());
        }
        txt += ")";
        break;
    }
    case 2: {
        nd.k = PFOR;
        nd.n = (int)sim::draw_range(1, std::min(12, std::max(1, w.budget)), "n");
        nd.grain = (int)sim::draw_range(1, 3, "grain");
        nd.part = (int)sim::draw(4, "part");
        static const int ppts[] = {0, 2, 10, 50}; nd.points = ppts[sim::draw(4, "points")];
        nd.unit0 = w.units.add(canc); nd.units.push_back(nd.unit0);
        for (int i = 1; i < nd.n; ++i) nd.units.push_back(w.units.add(canc));
        w.budget -= nd.n;
        static const char* const pn[] = {"simple", "auto", "static", "affinity"};
        txt += hx::fmt("PF[%d..%d g%d %s]", nd.unit0, nd.unit0 + nd.n - 1, nd.grain, pn[nd.part]);
        break;
    }
    case 3: case 4: case 5: {
        nd.k = choice == 3 ? EXEC : choice == 4 ? ENQ : ISOLATE;
        nd.arena = (int)sim::draw(w.arenas.size(), "arena");
        if (nd.k == EXEC && nd.arena < top_arena) nd.arena = top_arena;
        int inner_top = nd.k == ISOLATE ? top_arena : nd.arena;
        txt += nd.k == EXEC ? hx::fmt("X%d(", nd.arena) : nd.k == ENQ ? hx::fmt("Q%d(", nd.arena) : "I(";
        nd.kids.emplace_back();
        gen(nd.kids.back(), depth + 1, d, txt, nd.k == ENQ ? false : canc, inner_top);
        if (nd.k != ENQ) nd.units = nd.kids.back().units;   // an enqueued subtree is not covered by enclosing waits
        txt += ")";
        break;
    }
    }
}

void run_node(const Node& nd, tbb::task_group* enclosing, bool canc);

void run_group(const Node& nd, bool canc) {
    canc = canc || nd.cancel;
    World& w = *W;
    tbb::task_group tg;
    std::vector<std::function<void()>> bodies(nd.kids.size());
    for (size_t i = 0; i < nd.kids.size(); ++i) {
        const Node* kid = &nd.kids[i];
        bodies[i] = [kid, &tg, canc] { run_node(*kid, &tg, canc); };
    }
    for (size_t i = 0; i < nd.kids.size(); ++i) {
        bool last = i + 1 == nd.kids.size();
        if (nd.cancel && i == nd.kids.size() / 2) tg.cancel();
        if (last && nd.last_run_and_wait) tg.run_and_wait(Fn(&bodies[i]));
        else tg.run(Fn(&bodies[i]));
    }
    tbb::task_group_status st = tg.wait();
    (void)st;
    w.units.check_done(nd.units, "task_group::wait", canc);
}

void run_node(const Node& nd, tbb::task_group* enclosing, bool canc) {
    World& w = *W;
    switch (nd.k) {
    case LEAF: w.units.run(nd.unit0, nd.points); break;
    case GROUP: run_group(nd, canc); break;
    case SUBMIT: {
        // a task that submits further tasks into the group it belongs to (covered by the same wait)
        if (!enclosing) { for (auto& k : nd.kids) run_node(k, nullptr, canc); break; }
        for (auto& k : nd.kids) {
            const Node* kid = &k;
            // the std::function must outlive the task: allocate, freed at the end of the run (leak in a short-lived child)
            auto* body = new std::function<void()>([kid, enclosing, canc] { run_node(*kid, enclosing, canc); });
            enclosing->run(Fn(body));
        }
        break;
    }
    case PFOR: {
        auto body = [&](const tbb::blocked_range<int>& r) {
            for (int i = r.begin(); i != r.end(); ++i) w.units.run(nd.unit0 + i, nd.points);
        };
        tbb::blocked_range<int> range(0, nd.n, (size_t)nd.grain);
        switch (nd.part) {
        case 0: tbb::parallel_for(range, body, tbb::simple_partitioner()); break;
        case 1: tbb::parallel_for(range, body, tbb::auto_partitioner()); break;
        case 2: tbb::parallel_for(range, body, tbb::static_partitioner()); break;
        case 3: {
            tbb::affinity_partitioner ap;
            tbb::parallel_for(range, [&](const tbb::blocked_range<int>& r) { for (int i = r.begin(); i != r.end(); ++i) sim::upoint(); (void)r; }, ap);
            tbb::parallel_for(range, body, ap);  // replayed affinities: mailbox / proxy path
            break;
        }
        }
        w.units.check_done(nd.units, "parallel_for", canc);
        break;
    }
    case EXEC:
        w.arenas[nd.arena]->execute([&] { run_node(nd.kids[0], nullptr, canc); });
        w.units.check_done(nd.units, "task_arena::execute", canc);
        break;
    case ENQ: {
        auto* ev = new sim::event;
        w.pending.push_back(ev); w.pending_nodes.push_back(&nd);
        const Node* kid = &nd.kids[0];
        w.arenas[nd.arena]->enqueue([kid, ev] { run_node(*kid, nullptr, false); ev->signal(); });
        break;
    }
    case ISOLATE:
        tbb::this_task_arena::isolate([&] { run_node(nd.kids[0], nullptr, canc); });
        w.units.check_done(nd.units, "isolate", canc);
        break;
    }
}

}  // namespace

SIM_SCENARIO(scen_c01, "c01", "C01", 3000000, 20000) {
    hx::Desc d;
    World world; W = &world;
    hx::draw_runtime_config(d);
    int narenas = (int)sim::draw_range(1, 2, "narenas");
    std::vector<std::pair<int, int>> shapes;
    for (int i = 0; i < narenas; ++i) {
        int maxc = (int)sim::draw_range(1, 4, "maxc");
        // reserved < max(2,maxc): an arena whose slots are all reserved for application threads never gets a
        // worker, so an enqueue into it legitimately waits for an application thread (not a lost wake-up)
        int res = (int)sim::draw_range(0, std::min(2, std::max(1, maxc - 1)), "reserved");
        shapes.push_back({maxc, res});
        d.add(hx::fmt("arena%d(%d,%d)", i, maxc, res));
    }
    for (auto& s : shapes) world.arenas.push_back(new tbb::task_arena(s.first, (unsigned)s.second));
    world.kind_mask = (unsigned)sim::draw(128, "kind_mask") | 1u;
    if (sim::draw(4, "allkinds") == 0) world.kind_mask = 0x7f;
    d.add(hx::fmt("kinds=%#x", world.kind_mask));
    int nuser = (int)sim::draw_range(1, 3, "users");
    std::vector<Node> roots(nuser);
    for (int t = 0; t < nuser; ++t) {
        std::string txt;
        world.budget = 40 / nuser;
        gen(roots[t], 0, d, txt);
        d.add(hx::fmt("U%d: %s", t, txt.c_str()));
    }
    d.publish();
    std::vector<std::function<void()>> fns;
    for (int t = 0; t < nuser; ++t) fns.push_back([&, t] { run_node(roots[t], nullptr, false); });
    hx::run_fibers(fns);
    // enqueued subtrees: the submitter never calls a TBB wait; it blocks on a simulator event
    for (size_t i = 0; i < world.pending.size(); ++i) {
        world.pending[i]->wait();
        world.units.check_done(world.pending_nodes[i]->kids[0].units, "enqueued task completion");
    }
    for (size_t i = 0; i < world.units.u.size(); ++i) {
        auto& x = world.units.u[i];
        SIM_CHECK(x.started <= 1 && x.finished == x.started, "oracle:ran-twice", "unit %zu started=%d finished=%d", i, x.started, x.finished);
    }
    SIM_CHECK(world.fn_live == 0, "oracle:functor-balance", "%d task functor copies were never destroyed (or destroyed twice)", world.fn_live);
    for (auto* a : world.arenas) delete a;
    W = nullptr;
}
