// Shared pieces of the whole-runtime scenarios (C01..C07, C14..C16, C19, C20).
#pragma once
#include "common.h"
#include "oneapi/tbb/task_arena.h"
#include "oneapi/tbb/task_group.h"
#include "oneapi/tbb/global_control.h"
#include "oneapi/tbb/parallel_for.h"

namespace hx {

// per-run machine / knob configuration drawn from the tape (swarm)
inline void draw_runtime_config(Desc& d, int maxP = 6, bool allow_warm = true) {
    static const int Ps[] = {1, 2, 3, 4, 6, 8, 12, 16};
    int n = 0;
    while (n < 8 && Ps[n] <= maxP) ++n;
    sim::g_cfg.P = Ps[sim::draw(n, "P")];
    static const int knobs[] = {-1, 0, 1, 3};
    sim::g_cfg.spin_knob = knobs[sim::draw(4, "spin_knob")];
    d.add(fmt("P=%d spin_knob=%d", sim::g_cfg.P, sim::g_cfg.spin_knob));
    // warm start (2 runs in 3): a short parallel loop first, so that worker threads already exist and are in
    // their steal/spin/sleep cycle when the scenario proper begins (cold start is kept in the remaining runs)
    if (allow_warm && sim::draw(3, "warm") != 0) {
        int n = 2 * sim::g_cfg.P;
        tbb::parallel_for(0, n, [](int) { for (int i = 0; i < 25; ++i) sim::upoint(); }, tbb::simple_partitioner());
        d.add("warm");
    }
}

// Worker allotment under a zero soft limit (hook H7): the single "mandatory" worker exists for arenas that hold
// enqueued work; if such an arena also has worker demand and nobody is granted a worker, enqueued work cannot start.
// Used by the C16 allotment oracle and, alone, by the C02 scenarios (raised before oneTBB's own assertion).
inline std::string allotment_vector(int n, const int* level, const int* minw, const int* maxw, const int* allot) {
    std::string v;
    for (int i = 0; i < n; ++i) v += fmt(" [level %d mandatory %d demand %d -> %d]", level[i], minw[i], maxw[i], allot[i]);
    return v;
}
inline void check_mandatory_allotment(int soft, int mand, int total, int n, const int* level, const int* minw, const int* maxw, const int* allot) {
    if (soft != 0 || mand <= 0) return;
    int sum = 0, entitled = 0;
    for (int i = 0; i < n; ++i) { sum += allot[i]; if (minw[i] > 0 && maxw[i] > 0) ++entitled; }
    if (entitled > 0 && sum == 0)
        sim::fail("oracle:mandatory-worker-denied", "soft limit 0, %d mandatory request(s), total demand %d: an arena that holds enqueued work and worker demand is granted no worker and neither is anybody else:%s",
                  mand, total, allotment_vector(n, level, minw, maxw, allot).c_str());
    for (int i = 0; i < n; ++i)
        if (allot[i] > 0 && minw[i] == 0)
            sim::fail("oracle:mandatory-worker-denied", "soft limit 0: the mandatory worker is granted to an arena without enqueued work:%s", allotment_vector(n, level, minw, maxw, allot).c_str());
}

// Unit-of-work bookkeeping: every unit must start at most once, finish at most once.
struct Units {
    struct U { int started = 0, finished = 0; int fiber = -1; bool running = false; bool cancellable = false; uint64_t payload = 0; };
    std::vector<U> u;
    int live_bodies = 0;
    int add(bool cancellable = false) { u.emplace_back(); u.back().cancellable = cancellable; return (int)u.size() - 1; }
    void begin(int id) {
        U& x = u[id];
        SIM_CHECK(x.started == 0, "oracle:ran-twice", "unit %d started a second time (first on fiber %d, now on fiber %d)", id, x.fiber, sim::self());
        x.started++; x.fiber = sim::self(); x.running = true; ++live_bodies;
        if (live_bodies >= 2) sim::mark_window();
    }
    void end(int id) {
        U& x = u[id];
        SIM_CHECK(x.running && x.finished == 0, "oracle:ran-twice", "unit %d finished twice", id);
        x.payload = (uint64_t)id * 7 + 1;
        x.finished++; x.running = false; --live_bodies;
    }
    void run(int id, int points) {
        begin(id);
        for (int i = 0; i < points; ++i) sim::upoint();
        end(id);
    }
    // a waiting call returned: these units must be complete and visible
    void check_done(const std::vector<int>& ids, const char* what, bool cancelled = false) {
        for (int id : ids) {
            const U& x = u[id];
            if (cancelled || x.cancellable) {
                SIM_CHECK(!x.running && x.started == x.finished && x.started <= 1, "oracle:wait-incomplete",
                          "%s returned while unit %d of the (cancelled) group is still running or ran twice (started=%d finished=%d)", what, id, x.started, x.finished);
            } else {
                SIM_CHECK(x.started == 1 && x.finished == 1, "oracle:wait-incomplete", "%s returned but unit %d has started=%d finished=%d (lost or still running)", what, id, x.started, x.finished);
                SIM_CHECK(x.payload == (uint64_t)id * 7 + 1, "oracle:visibility", "%s returned but the write of unit %d is not visible", what, id);
            }
        }
    }
};

}  // namespace hx
