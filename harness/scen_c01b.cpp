// C01 (isolation window) — tasks with foreign isolation tags on top of own-tag tasks in the owner's deque,
// while other threads steal from inside their own isolated waits (tag mismatch => steal roll-back).
// Exercises the omitted-task paths of arena_slot::get_task / steal_task.
#include "rt_common.h"

namespace {
struct Fn2 {
    static int live;
    std::function<void()>* f;
    explicit Fn2(std::function<void()>* p) : f(p) { ++live; }
    Fn2(const Fn2& o) : f(o.f) { ++live; }
    ~Fn2() { --live; }
    void operator()() const { (*f)(); }
};
int Fn2::live = 0;
}

SIM_SCENARIO(scen_c01b, "c01b", "C01", 3000000, 20000) {
    hx::Desc d;
    hx::Units units;
    Fn2::live = 0;
    static const int Ps[] = {2, 3, 4, 6};
    sim::g_cfg.P = sim::draw_of(Ps, "P");
    static const int knobs[] = {-1, 0, 1, 3};
    sim::g_cfg.spin_knob = sim::draw_of(knobs, "spin_knob");
    int rounds = (int)sim::draw_range(1, 3, "rounds");
    bool use_arena = sim::draw_bool("arena");
    int maxc = (int)sim::draw_range(2, 4, "maxc");
    d.add(hx::fmt("isolation-window P=%d spin_knob=%d arena=%d/%d rounds=%d", sim::g_cfg.P, sim::g_cfg.spin_knob, (int)use_arena, maxc, rounds));
    tbb::task_arena arena(maxc);
    std::vector<std::function<void()>*> keep;
    auto body_round = [&](int r) {
        // plan of this round: sequence of own-tag spawns: 'A' leaf, 'C' isolated-waiter task; then nb foreign-tag leaves
        int nown = (int)sim::draw_range(1, 4, "nown");
        int nb = (int)sim::draw_range(0, 4, "nb");
        int nafter = (int)sim::draw_range(0, 2, "nafter");
        std::string s = hx::fmt("round%d:", r);
        std::vector<int> all;
        tbb::this_task_arena::isolate([&] {
            tbb::task_group tg;
            auto leaf = [&](int pts) {
                int id = units.add(); all.push_back(id);
                auto* f = new std::function<void()>([&units, id, pts] { units.run(id, pts); });
                keep.push_back(f);
                return f;
            };
            for (int i = 0; i < nown; ++i) {
                if (sim::draw(3, "kind") == 0) {
                    // a task that waits inside its own isolation scope (an isolated thief while it waits)
                    int n2 = (int)sim::draw_range(1, 3, "n2"); int pts = (int)sim::draw(12, "pts");
                    std::vector<int> ids; for (int k = 0; k < n2; ++k) { ids.push_back(units.add()); all.push_back(ids.back()); }
                    auto* f = new std::function<void()>([&units, ids, pts] {
                        tbb::this_task_arena::isolate([&] {
                            tbb::task_group g2;
                            for (int id : ids) g2.run([&units, id, pts] { units.run(id, pts); });
                            g2.wait();
                            units.check_done(ids, "inner task_group::wait (isolated)");
                        });
                    });
                    keep.push_back(f);
                    tg.run(Fn2(f)); s += hx::fmt(" C%d", n2);
                } else {
                    int pts = (int)sim::draw(12, "pts");
                    tg.run(Fn2(leaf(pts))); s += hx::fmt(" A/%d", pts);
                }
            }
            // foreign-tag tasks on top of the own-tag ones: spawned from a nested isolation scope, not waited there
            tbb::this_task_arena::isolate([&] {
                for (int j = 0; j < nb; ++j) { int pts = (int)sim::draw(12, "pts"); tg.run(Fn2(leaf(pts))); s += hx::fmt(" B/%d", pts); }
            });
            for (int i = 0; i < nafter; ++i) { int pts = (int)sim::draw(6, "pts"); tg.run(Fn2(leaf(pts))); s += hx::fmt(" A'/%d", pts); }
            tg.wait();
            units.check_done(all, "task_group::wait (inside isolate)");
        });
        d.add(s);
    };
    auto all_rounds = [&] { for (int r = 0; r < rounds; ++r) body_round(r); };
    if (use_arena) arena.execute(all_rounds); else all_rounds();
    d.publish();
    for (size_t i = 0; i < units.u.size(); ++i)
        SIM_CHECK(units.u[i].started == 1 && units.u[i].finished == 1, "oracle:ran-twice", "unit %zu started=%d finished=%d", i, units.u[i].started, units.u[i].finished);
    SIM_CHECK(Fn2::live == 0, "oracle:functor-balance", "%d task functor copies alive after all waits returned", Fn2::live);
}
