# Per-property configuration of the checks (scenario names, budgets, probes that evidence must list).
CHECKS = {
    "C01": {"scenarios": ["c01"], "quick_budget_s": 60, "thorough_budget_s": 900,
            "real": ["src/tbb scheduler: arena, arena_slot, mailbox, task_stream, task_dispatcher, threading_control, market, private_server (RML), task_group, parallel_for, partitioners"]},
    "C08": {"scenarios": ["c08"], "quick_budget_s": 45, "thorough_budget_s": 600,
            "real": ["include/oneapi/tbb/{spin,queuing,}_mutex.h, {spin_rw,queuing_rw,rw}_mutex.h, src/tbb/queuing_rw_mutex.cpp, rtm_mutex.cpp, rtm_rw_mutex.cpp (fallback paths)"],
            "assumptions": ["speculative (RTM) variants run their non-transactional fallback paths only"]},
}

COMPONENTS_REAL = [
    "src/tbb/*.cpp (all 32 TUs, compiled from the working tree with only the token-level renaming prelude)",
    "include/oneapi/tbb/** (header-only containers, algorithms, flow graph)",
    "src/tbbmalloc/*.cpp",
]
COMPONENTS_STUB = [
    "OS threads -> cooperative fibers on one OS thread (pthread_create/join/self/key_*)",
    "futex / sem_* -> simulator wait queues with seeded wake order and spurious wake-ups",
    "std::atomic -> sim_atomic (schedule point per operation; optional x86-TSO store buffer on registered regions)",
    "steady_clock / nanosleep / rdtsc / time() -> simulated clock",
    "mmap/munmap/mremap -> pass-through with failure injection",
    "sched_getaffinity/sysconf -> simulated machine size P",
    "dynamic_link (tbbbind, TCM, libtbbmalloc.so, ITT) -> nothing found; r1::allocate uses malloc",
    "hardware transactions (RTM), waitpkg, hybrid-CPU detection -> disabled by hook",
]
ASSUMPTIONS = [
    "executions are sequentially consistent at atomic-operation granularity (plus x86-TSO store buffering for registered regions); plain data races are invisible",
    "sampling, not proof: a clean batch is evidence about the explored seeds only",
    "addresses are deterministic (ASLR off, fork from a pristine zygote); one seed = one execution",
]

NOT_APPLICABLE = {}

MANIFEST_TEXT = {
    "C08": {"level": "Seeded search over schedules (and x86-TSO store-buffer delays) of 2-4 simulated threads issuing legal lock/try/upgrade/downgrade sequences against the real mutex code of all 8 lock types; "
                     "oracles: holder bookkeeping (mutual exclusion, reader/writer), payload visibility, upgrade truth, try never blocks, queue order by watching the tail word, deadlock/livelock detection for lost hand-offs; "
                     "internal assertions, ASan and UBSan are live in the quick flavour. Exploration is the right level: the property quantifies over interleavings, which are sampled, not enumerated.",
            "note": "SC at atomic-operation granularity (+TSO on the mutex, scoped-lock nodes and payload); RTM variants only on their fallback path; sampling gives evidence, not proof."},
}
