# Per-property configuration of the checks (scenario names, budgets, probes that evidence must list).
CHECKS = {
    "C01": {"scenarios": ["c01", "c01b", "c01c", "c01d"], "quick_budget_s": 60, "thorough_budget_s": 900,
            "real": ["src/tbb scheduler: arena, arena_slot, mailbox, task_stream, task_dispatcher, threading_control, market, private_server (RML), task_group, parallel_for, partitioners"]},
    "C09": {"scenarios": ["c09"], "quick_budget_s": 45, "thorough_budget_s": 600,
            "real": ["include/oneapi/tbb/concurrent_queue.h, detail/_concurrent_queue_base.h, src/tbb/concurrent_bounded_queue.cpp, concurrent_monitor"]},
    "C02": {"scenarios": ["c02"], "quick_budget_s": 50, "thorough_budget_s": 900,
            "real": ["src/tbb/concurrent_monitor.h, concurrent_monitor_mutex.h, semaphore.h (futex path), arena.h advertise_new_work / out_of_work, thread_request_serializer, private_server wake-up, task_arena::execute exit monitor, task_stream"],
            "assumptions": ["store-buffer (TSO) delays are modelled for atomics inside registered regions only: the monitor under test, the arena block (hook) and harness flags; plain stores are not buffered, so a fence that only orders mutex-protected plain writes cannot be judged",
                            "blocked bounded-queue and mutex sleepers are covered by the C09 and C08 checks"]},
    "C03": {"scenarios": ["c03"], "quick_budget_s": 50, "thorough_budget_s": 900,
            "real": ["exception paths of task_dispatcher, task_group_context, start_for/start_reduce/for_each/invoke/pipeline tasks, task_group, task_arena::execute delegation, flow graph function_node"]},
    "C04": {"scenarios": ["c04", "c04b", "c04c", "c04d"], "quick_budget_s": 50, "thorough_budget_s": 900,
            "real": ["src/tbb/task_group_context.cpp (bind, propagate, cancel), context lists in thread_data, parallel_for as the binder"]},
    "C05": {"scenarios": ["c05"], "quick_budget_s": 50, "thorough_budget_s": 900,
            "real": ["include/oneapi/tbb/parallel_for.h, partitioner.h, blocked_range*.h, blocked_nd_range.h, parallel_for_each.h, parallel_invoke.h + scheduler"],
            "assumptions": ["the pure-input clause 'for every (begin,end,grain)' is sampled with corner-biased sizes (incl. > 2^24, > 2^32, near 2^64 with chunk-level accounting), not decided"]},
    "C06": {"scenarios": ["c06"], "quick_budget_s": 50, "thorough_budget_s": 900,
            "real": ["include/oneapi/tbb/parallel_reduce.h, parallel_scan.h, parallel_sort.h + scheduler"]},
    "C07": {"scenarios": ["c07"], "quick_budget_s": 50, "thorough_budget_s": 900,
            "real": ["include/oneapi/tbb/parallel_pipeline.h, src/tbb/parallel_pipeline.cpp + scheduler"]},
    "C10": {"scenarios": ["c10"], "quick_budget_s": 45, "thorough_budget_s": 600,
            "real": ["include/oneapi/tbb/concurrent_hash_map.h (header-only) incl. lazy rehashing, accessor locks"]},
    "C11": {"scenarios": ["c11"], "quick_budget_s": 45, "thorough_budget_s": 600,
            "real": ["include/oneapi/tbb/concurrent_vector.h, detail/_segment_table.h"],
            "assumptions": ["'index-to-segment arithmetic is a bijection for every index' is a pure function of the index: exercised, not decided", "sizes >= 2^31 / 2^32 are covered by a native reproducer of the fixed defect only, not inside the simulator"]},
    "C12": {"scenarios": ["c12"], "quick_budget_s": 45, "thorough_budget_s": 600,
            "real": ["include/oneapi/tbb/concurrent_unordered_{map,set}.h, concurrent_{map,set}.h, detail/_concurrent_unordered_base.h (split-ordered list), detail/_concurrent_skip_list.h"]},
    "C13": {"scenarios": ["c13"], "quick_budget_s": 40, "thorough_budget_s": 600,
            "real": ["include/oneapi/tbb/concurrent_priority_queue.h, detail/_aggregator.h"]},
    "C14": {"scenarios": ["c14"], "quick_budget_s": 50, "thorough_budget_s": 900,
            "real": ["include/oneapi/tbb/flow_graph.h and detail/_flow_graph_*: function/multifunction/continue/input/buffer/queue/broadcast/limiter/join/async nodes, graph::wait_for_all, reserve_wait, cancel"]},
    "C15": {"scenarios": ["c15"], "quick_budget_s": 50, "thorough_budget_s": 900,
            "real": ["flow graph queue_node, sequencer_node, priority_queue_node, join_node (queueing / key_matching / reserving), limiter_node, overwrite_node, write_once_node, split_node, indexer_node, reservation protocol"]},
    "C16": {"scenarios": ["c16", "c16b", "c16c"], "quick_budget_s": 50, "thorough_budget_s": 900,
            "real": ["src/tbb/arena.cpp (slots, occupy_free_slot, nested_arena_context, delegation), market.cpp allotment, threading_control, global_control.cpp, observer_proxy.cpp, isolation in arena_slot/task_dispatcher"],
            "assumptions": ["the allotment arithmetic 'for all demand vectors' is a pure function: it is exercised by the demand vectors real scenarios produce and guarded by oneTBB's own assertion (see known finding), not checked through a dedicated hook"]},
    "C17": {"scenarios": ["c17"], "quick_budget_s": 45, "thorough_budget_s": 600,
            "real": ["src/tbbmalloc/frontend.cpp, backend.cpp, backref.cpp, large_objects.cpp, tbbmalloc.cpp (compiled with TBB_USE_DEBUG=1 in the asan flavour)"],
            "assumptions": ["'for all request sizes 0..2^64-1' is a pure-input clause: sizes are drawn from a list biased to every size-class boundary, not enumerated", "large blocks are pattern-checked on a sample of positions (first 4096 bytes, every 4099th byte, last 1024 bytes)"]},
    "C18": {"scenarios": ["c18", "c18b"], "quick_budget_s": 45, "thorough_budget_s": 600,
            "real": ["src/tbbmalloc/* incl. memory pools (rml::pool_*), mmap/mremap through the simulator's failure-injecting layer"],
            "assumptions": ["the k-th raw allocation to fail is drawn per run (k in 1..14, single / window / long outage), not enumerated per trace"]},
    "C19": {"scenarios": ["c19"], "quick_budget_s": 45, "thorough_budget_s": 600,
            "real": ["include/oneapi/tbb/collaborative_call_once.h, enumerable_thread_specific.h, combinable.h + scheduler (helpers joining the winner's nested parallelism)"]},
    "C20": {"scenarios": ["c20", "c20b", "c20c"], "quick_budget_s": 45, "thorough_budget_s": 600,
            "real": ["src/tbb/task.cpp (suspend/resume), co_context.h with real ucontext coroutines (makecontext/swapcontext inside simulated threads), task_dispatcher resume paths, arena coroutine cache"]},
    "C08": {"scenarios": ["c08", "c08b", "c08c"], "quick_budget_s": 45, "thorough_budget_s": 600,
            "real": ["include/oneapi/tbb/{spin,queuing,}_mutex.h, {spin_rw,queuing_rw,rw}_mutex.h, src/tbb/queuing_rw_mutex.cpp, rtm_mutex.cpp, rtm_rw_mutex.cpp (fallback paths)"],
            "assumptions": ["speculative (RTM) variants run their non-transactional fallback paths only"]},
}

COMPONENTS_REAL = [
    "src/tbb/*.cpp (all 32 TUs, compiled from the working tree with only the token-level renaming prelude)",
    "include/oneapi/tbb/** (header-only containers, algorithms, flow graph)",
    "src/tbbmalloc/*.cpp",
]
COMPONENTS_STUB = [
    "OS threads -> cooperative fibers on one OS thread (pthread_create/join/self/key_*)",
    "futex / sem_* -> simulator wait queues with seeded wake order and spurious wake-ups",
    "std::atomic -> sim_atomic (schedule point per operation; optional x86-TSO store buffer on registered regions)",
    "steady_clock / nanosleep / rdtsc / time() -> simulated clock",
    "mmap/munmap/mremap -> pass-through with failure injection",
    "sched_getaffinity/sysconf -> simulated machine size P",
    "dynamic_link (tbbbind, TCM, libtbbmalloc.so, ITT) -> nothing found; r1::allocate uses malloc",
    "hardware transactions (RTM), waitpkg, hybrid-CPU detection -> disabled by hook",
]
ASSUMPTIONS = [
    "executions are sequentially consistent at atomic-operation granularity (plus x86-TSO store buffering for registered regions); plain data races are invisible",
    "sampling, not proof: a clean batch is evidence about the explored seeds only",
    "addresses are deterministic (ASLR off, fork from a pristine zygote); one seed = one execution",
]

NOT_APPLICABLE = {}

MANIFEST_TEXT = {
    "C14": {"level": "Seeded search over schedules of 8 graph topologies built from the standard nodes (function-node chains with queueing / rejecting / lightweight policies and concurrency serial / 2 / unlimited, broadcast + queueing join, buffering sender in front of a rejecting serial node, input_node + limiter with decrement feedback, multifunction routing, continue_node fan-in, async_node completed by a foreign thread, one buffering node feeding a reserving limiter and a rejecting node at once) with 1-3 external putting threads, optional concurrent graph::cancel; "
                     "oracle: per node and message exactly-once processing, concurrent bodies <= limit, sink multiset == accepted multiset, rejected external puts leave nothing in the graph, wait_for_all returns only when no body runs / no reserve_wait is outstanding and nothing starts afterwards.",
            "note": "<= 12 messages and <= 6 nodes per run; UBSan's null check is off in the flow-graph translation units (benign idiom in the tagged buffer, see build.mk)."},
    "C15": {"level": "Seeded search over schedules of one node under test between 1-3 putting threads and a serial recording sink or pulling consumer: queue_node (per-producer FIFO), sequencer_node (any arrival permutation -> 0,1,2,...; numbers below the head rejected), priority_queue_node, join_node queueing / key_matching / reserving (unpaired inputs stay upstream), limiter_node with in-graph decrement feedback and several messages in flight, limiter_node<int,int> with batch decrements racing puts, overwrite_node / write_once_node incl. successors added later, split_node / indexer_node routing, try_reserve / try_release / try_consume conservation.",
            "note": "<= 12 messages per run; the limiter oracle counts forwarded-but-not-yet-decremented messages inside the stage behind the limiter."},
    "C02": {"level": "Seeded search over schedules, spurious futex wake-ups, wake-order choices, thread-start failures, clock jumps and x86-TSO store-buffer delays of (a) sleeper/notifier programs on the real concurrent_monitor (prepare/re-check/commit vs state-change/notify_all/notify(predicate)) and (b) whole-runtime programs in which enqueued work must run although its submitter never calls a TBB wait: arenas of every small shape, several arenas competing for workers, max_allowed_parallelism=1 (mandatory worker), execute() on saturated arenas (exit monitor), bursts separated by idle phases, arenas of different priorities under a 0-2 worker limit with a busy arena that keeps plain demand alive without waiting; "
                     "verdict = the simulator's deadlock / permanent-livelock criterion under a fair scheduler (no timing assumption) plus predicate-true-on-return checks and, through hook H7, 'an arena with enqueued work and demand is not left without the mandatory worker'. Sensitivity shown by removing the seq_cst fence of notify_all/notify: 12 deadlocks in 176k runs.",
            "note": "liveness is judged as 'no state-changing step possible any more', never as a step budget; fences that are redundant on x86 (followed by a locked instruction) cannot and need not be detected."},
    "C19": {"level": "Seeded search over schedules (incl. x86-TSO delays on the once flag) of 2-6 callers of collaborative_call_once (some from inside task arenas / task_group tasks so that late arrivals help with the winner's nested parallel_for; attempts that throw chosen by a mask) and of 2-8 threads making first accesses to enumerable_thread_specific (both key-usage types) / combinable while the internal table doubles, with threads exiting and new threads arriving; "
                     "oracle: exactly one successful execution, every normal return after it and seeing its write, each exception to exactly one caller, flag callable again; one element per thread from exactly one initialiser call, stable address, no sharing, local(exists) truthful, iteration / combine_each / combine visit each element once.",
            "note": "thread identity is the simulated thread id; element counts <= 12 per run."},
    "C20": {"level": "Seeded search over schedules of 1-5 tasks calling tbb::task::suspend with resume issued inside the callback (before the suspension took effect), by another TBB task, by a foreign thread at once or after a delay; nested second suspensions; task_group and parallel_for as the enclosing wait; arenas of size 1 (owner recall) to 3 and the implicit arena; oneTBB's real ucontext coroutines run inside the simulated threads; "
                     "oracle: each suspend point continues exactly once, never before resume() was called, never on two threads at once, never after the enclosing wait returned; the wait returns only when every suspended task finished; lost resumes show as deadlock/livelock.",
            "note": "__TBB_RESUMABLE_TASKS_USE_THREADS is forced to 0 so that the shipped coroutine implementation (not the sanitizer fallback) is simulated."},
    "C16": {"level": "Seeded search over schedules of 1-4 application threads using 1-3 arenas (max_concurrency 1-4, reserved 0-2, three priorities) through execute / enqueue / task_group waits with isolate, on 1-8 simulated CPUs, optionally under global_control(max_allowed_parallelism, 1..4), with observers on every arena, plus sequences of global_control creation / destruction between phases of work (limit and market soft limit checked through hook H7); "
                     "oracle inside every body: threads inside an arena <= max_concurrency (+1 for a one-thread arena with enqueued work), pairwise distinct current_thread_index below the bound, reserved slots only held by application threads, isolation scopes respected while waiting, simultaneous workers in user work <= L-1 (mandatory worker allowed when L-1 == 0); observer entry/exit calls paired per thread.",
            "note": "threads holding a slot without executing a body are not visible to the oracle (it counts bodies); the allotment clauses (sum == min(demand, limit), no arena above its request, priority order, mandatory worker goes to an arena with enqueued work) are checked through hook H7 after every allotment update."},
    "C04": {"level": "Seeded search over schedules (incl. x86-TSO delays on the context objects) of context forests of 2-12 heap-allocated task_group_contexts (bound / isolated) that are bound lazily by nested parallel_for calls exactly as in production, with 1-3 cancel_group_execution calls issued from bodies inside the forest and from external threads, racing with binders, plus a focused scenario (chains of 3-4 bound contexts, store buffers always on, one cancel released just before the target's first child is bound) and a life-cycle scenario (2-3 rounds over the same heap contexts: cancelled contexts reset or carried on, stack-allocated contexts created / bound / destroyed by the bodies while cancellations propagate); "
                     "oracle at quiescence (binder threads still alive): at most one true per context (exactly one if no ancestor was cancelled), every bound context beneath a cancelled one is cancelled, nothing else is, the state persists until reset, task_group resets its own context.",
            "note": "contexts that outlive the thread they were bound on (orphaned context lists) are outside the scenario; the oracle runs while the binder threads are alive."},
    "C03": {"level": "Seeded search over schedules and throw plans: the k-th..k+m-th invocation of {body, Range copy constructor, Range splitting constructor, reduction-body splitting constructor, join} throws a tagged exception inside parallel_for (4 partitioners), parallel_reduce, parallel_for_each, parallel_invoke, parallel_pipeline (int and class-type tokens, filter modes from the plan), task_group (wait / run_and_wait), task_arena::execute and a flow-graph function_node, optionally with a concurrent external cancel; "
                     "oracle: exactly one exception, with a tag really thrown by that group, reaches the caller; no body running or starting after the call exits; nothing escapes on a worker fiber; a second fault-free round on the same objects completes; construction/destruction balance of Range, Body and functor objects.",
            "note": "throw sites are harness-side (user code); allocation failures inside the scheduler itself are not injected."},
    "C17": {"level": "Seeded search over schedules of 1-4 simulated threads issuing scalable_malloc/calloc/realloc/aligned_malloc/aligned_realloc/posix_memalign/free/msize and cleanup commands against the real tbbmalloc (sizes biased to every class boundary, alignments up to 2^20, foreign frees, threads exiting with live blocks whose slabs are orphaned and adopted by a later thread); "
                     "oracle: shadow interval map of live blocks with per-block fill patterns: no overlap, alignment, msize >= request, calloc zero, realloc prefix preserved, live blocks never written by the allocator.",
            "note": "request sizes and alignments are sampled (pure-input quantifier not decided); MALLOC_ASSERT, ASan and UBSan live in the quick flavour."},
    "C18": {"level": "Seeded search over operation sequences, schedules and raw-allocation failure points: the k-th mmap/mremap (single, window or long outage) and the k-th call of a pool's raw allocator fail; extreme sizes/alignments (SIZE_MAX-k, n*size overflow, non-power-of-two, 2^63); growable and fixed memory pools with harness raw callbacks; "
                     "oracle: documented failure reporting (null/errno, ENOMEM/EINVAL), live blocks intact after every failure (shadow heap), recovery once memory is back, pool blocks inside that pool's raw regions, pool_identify, fixed pool calls the raw allocator once, every raw region returned exactly once and never while a block in it is in use.",
            "note": "claimed as exploration (k is sampled per run), not as an exhaustive k-enumeration per trace."},
    "C10": {"level": "Seeded search over schedules of 2-4 simulated threads doing insert/emplace/find/count/erase (by key and by accessor, holding accessors across schedule points) on the real concurrent_hash_map with identity / constant / low-bit-colliding hashers, 1-2 initial buckets and sequential prefills that park the table at each growth threshold, and an erase-dominated theme on one bucket chain with all keys present at the start; "
                     "oracle: per-key Wing-Gong-Lowe linearizability against a sequential map (values carry unique tags), reader/writer holder bookkeeping inside the mapped value, destructor check (no element destroyed under an accessor), size()/traversal/find agreement at quiescence.",
            "note": "<= 22 concurrent operations on <= 6 keys per run; P-compositional per-key checking; SC at atomic-operation granularity."},
    "C11": {"level": "Seeded search over schedules of 2-4 simulated threads doing push_back/emplace_back/grow_by/grow_to_at_least across the first-block decision, segment boundaries and the embedded-to-long table switch; oracle: returned ranges disjoint/contiguous/tiling, each address constructed exactly once (constructor registry), requested values, address stability of sampled elements, grow_to_at_least waits for construction, an observer thread checks that every index below size() is backed by a segment while the vector grows; "
                     "separate fault modes (throwing constructor / failing allocator at the k-th call) check only what the statement promises after a failure (destructible, accesses work or throw, ASan-clean).",
            "note": "sizes >= 2^31 are not run inside the simulator (a native reproducer of the fixed grow_to_at_least defect exists); index-to-segment bijection is a pure function, exercised only."},
    "C12": {"level": "Seeded search over schedules of 2-4 simulated threads doing insert/emplace/find/count/contains and complete traversals on all 8 container types (unordered: identity / constant / adversarial hashers, 1-2 initial buckets, prefills forcing table doublings; ordered: skip-list levels vary with the simulated time() seed; container filled directly or swapped in from another container); "
                     "oracle: one winner per key in unique containers and losers point at the winner, contents == successful inserts, find after a returned insert succeeds, traversals without duplicates that contain every element inserted before they began, comparator order / contiguity of equivalent elements, bounds queries at quiescence.",
            "note": "<= 24 operations on <= 10 keys per run."},
    "C13": {"level": "Seeded search over schedules of 2-4 simulated threads doing push/emplace/try_pop (4-value priority domain, unique ids) on the real concurrent_priority_queue; oracle: Wing-Gong-Lowe linearizability against a priority multiset, conservation after a final drain, and (separate mode) a throwing element copy at the k-th copy must reach only its own caller and have no effect.",
            "note": "<= 20 concurrent operations per run; aggregator batches are whatever the schedule produces."},
    "C05": {"level": "Seeded search over steal patterns (the simulated scheduler decides which subtasks are stolen) of parallel_for over instrumented blocked_range (all four partitioners, affinity replay, sizes 0..4096 with per-element counters, huge ranges > 2^24 / > 2^32 / near 2^64 with chunk-level accounting), 2d/3d/nd ranges (small with per-cell counters, and extents / grain sizes of 2^20..2^41 per dimension with chunk-level accounting), integer overloads, parallel_for_each (forward / random-access iterators, feeder) and parallel_invoke; "
                     "oracle: visit counters, chunks non-empty / disjoint / covering / in bounds, indivisible ranges never split, simple_partitioner chunk-size bounds.",
            "note": "the (begin,end,grain) quantifier is a pure-input clause: sampled with corner-biased values, not decided; schedule-dependent part decided by seeded search."},
    "C06": {"level": "Seeded search over schedules of parallel_reduce (Body and functional form, free-monoid value = operand sequence, so any reorder/loss/duplication shows), parallel_deterministic_reduce (non-associative floating point, compared bit-wise with an explicit split-tree recursion, across repeated runs and arena sizes), "
                     "parallel_scan (final pass exactly once with the exact incoming prefix) and parallel_sort (sorted permutation for sorted/reverse/one-inversion/many-equal/random inputs around the 500-element cutoff); split/join discipline of reduction bodies checked through body identities; scan and reduce bodies optionally wait in a nested parallel_for.",
            "note": "inputs are sampled; schedules are sampled."},
    "C07": {"level": "Seeded search over schedules of parallel_pipeline with 2-5 filters of random modes, 1-6 tokens, 0-40 items and per-(item,stage) delays drawn from the seed; "
                     "oracle: each item through each filter once and in stage order, common order of all serial_in_order filters, no overlap in serial filters, live items <= token limit at every emission, return only after end of input and retirement of all items.",
            "note": "delays are simulated schedule points, not wall-clock time."},
    "C01": {"level": "Seeded search over schedules of the REAL scheduler (arena, deque, mailbox, task streams, dispatcher, RML workers as simulated threads) running generated task trees "
                     "(task_group run/run_and_wait/cancel, tasks submitting into their own group, parallel_for with all four partitioners incl. replayed affinity, nested task_arena::execute incl. delegation, enqueue, isolate), an isolation-window scenario (own-tag under foreign-tag tasks, isolated thieves) "
                     "and a critical-task-stream scenario (flow-graph nodes with priorities inside/outside isolate, producers stolen by workers) on machines of 1-8 CPUs; oracle: per-unit started/finished counters, completeness and visibility at every wait return, functor construction/destruction balance, deadlock/livelock detection; "
                     "internal assertions + ASan/UBSan live. Exploration (sampling of interleavings) is what the quantifier allows.",
            "note": "SC at atomic-operation granularity; thread start failures, spurious wake-ups, clock jumps injected; plain data races invisible."},
    "C09": {"level": "Seeded search over schedules of 2-4 simulated threads issuing push/emplace/try_push/pop/try_pop on the real concurrent_queue / concurrent_bounded_queue (3 element size classes, counters pre-advanced to page boundaries, capacities 1-4, items already stored at the start, capacity set below the current size); "
                     "oracle: Wing-Gong-Lowe linearizability check against a sequential (bounded, blocking) FIFO model, conservation after a final drain, judge-at-quiescence for blocked callers, then abort; "
                     "fault-free runs are judged strictly; runs with a throwing constructor / failing page allocator / concurrent abort() are kept apart and their failures are attributed to the recorded known findings.",
            "note": "histories are capped at 20 concurrent operations + drain; in the abort/throw/alloc modes hangs and history failures are attributed to the known findings by their mode tag, so a new defect that only shows in those modes could be masked."},
    "C08": {"level": "Seeded search over schedules (and x86-TSO store-buffer delays) of 2-4 simulated threads issuing legal lock/try/upgrade/downgrade sequences against the real mutex code of all 8 lock types (upgrade/downgrade chains on the queue-based rw locks; long critical sections and work after the release for the sleeping locks tbb::mutex / rw_mutex so that waiters register and sleep); "
                     "oracles: holder bookkeeping (mutual exclusion, reader/writer), payload visibility, upgrade truth, try never blocks, queue order by watching the tail word, deadlock/livelock detection for lost hand-offs; "
                     "internal assertions, ASan and UBSan are live in the quick flavour. Exploration is the right level: the property quantifies over interleavings, which are sampled, not enumerated.",
            "note": "SC at atomic-operation granularity (+TSO on the mutex, scoped-lock nodes and payload); RTM variants only on their fallback path; sampling gives evidence, not proof."},
}
