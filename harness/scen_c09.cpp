// C09 — concurrent_queue / concurrent_bounded_queue: linearizable FIFO, conservation, capacity,
// blocking push/pop wake-ups, abort, throwing element constructor / page allocator.
#include "common.h"
#include "lincheck.h"
#include "oneapi/tbb/concurrent_queue.h"

namespace {

struct Faults {
    int throw_at = 0;      // k-th element copy/move construction throws (0 = never)
    int alloc_fail_at = 0; // k-th page allocation throws bad_alloc
    int ctor_calls = 0, alloc_calls = 0;
    int live_elems = 0;
    long live_bytes = 0;
    bool armed = false;
};
Faults* F = nullptr;

struct injected_throw : std::exception { const char* what() const noexcept override { return "injected element ctor failure"; } };

template <int N>
struct Elem {
    uint64_t id;
    char pad[N - 8];
    explicit Elem(uint64_t i = 0) : id(i) { std::memset(pad, (int)(i & 0x7f), sizeof pad); F->live_elems++; }
    Elem(const Elem& o) : id(o.id) {
        if (F->armed && ++F->ctor_calls == F->throw_at) { sim::fault_fired("throw-ctor"); throw injected_throw(); }
        std::memcpy(pad, o.pad, sizeof pad); F->live_elems++;
    }
    Elem(Elem&& o) : id(o.id) {
        if (F->armed && ++F->ctor_calls == F->throw_at) { sim::fault_fired("throw-ctor"); throw injected_throw(); }
        std::memcpy(pad, o.pad, sizeof pad); F->live_elems++;
    }
    Elem& operator=(const Elem& o) { id = o.id; std::memcpy(pad, o.pad, sizeof pad); return *this; }
    ~Elem() { F->live_elems--; }
    bool intact() const { for (char c : pad) if (c != (char)(id & 0x7f)) return false; return true; }
};
template <> struct Elem<8> {
    uint64_t id;
    explicit Elem(uint64_t i = 0) : id(i) { F->live_elems++; }
    Elem(const Elem& o) : id(o.id) { if (F->armed && ++F->ctor_calls == F->throw_at) { sim::fault_fired("throw-ctor"); throw injected_throw(); } F->live_elems++; }
    Elem& operator=(const Elem& o) { id = o.id; return *this; }
    ~Elem() { F->live_elems--; }
    bool intact() const { return true; }
};

template <class T>
struct FAlloc {
    using value_type = T;
    FAlloc() = default;
    template <class U> FAlloc(const FAlloc<U>&) {}
    T* allocate(size_t n) {
        if (F->armed && ++F->alloc_calls == F->alloc_fail_at) { sim::fault_fired("alloc"); throw std::bad_alloc(); }
        F->live_bytes += (long)(n * sizeof(T));
        return static_cast<T*>(::operator new(n * sizeof(T)));
    }
    void deallocate(T* p, size_t n) { F->live_bytes -= (long)(n * sizeof(T)); ::operator delete(p); }
    template <class U> bool operator==(const FAlloc<U>&) const { return true; }
    template <class U> bool operator!=(const FAlloc<U>&) const { return false; }
};

enum OK { PUSH, EMPLACE, TRY_PUSH, POP, TRY_POP, GHOST };
const char* const kOp[] = {"push", "emplace", "try_push", "pop", "try_pop", "failed-push"};
constexpr uint64_t GHOST_VAL = ~0ull;
struct QOp { OK k; uint64_t v; bool ok; };
struct QModel {
    std::deque<uint64_t> q;
    long cap = 0;  // 0 = unbounded
    // A push that ended with an exception (element constructor, page allocation, user_abort while blocked)
    // leaves an "invalid entry" in oneTBB's queue: invisible to pops, but it occupies a capacity slot until a
    // pop passes it.  The strict model (ghosts=false) gives such operations no effect at all, as the property
    // demands; the ghost model reproduces oneTBB's behaviour and is only used to attribute a failure of the
    // strict model to the recorded known finding.
    bool ghosts = false;
    void skip_ghosts() { while (!q.empty() && q.front() == GHOST_VAL) q.pop_front(); }
    bool apply(const QOp& o) {
        if (ghosts && (o.k == POP || o.k == TRY_POP)) skip_ghosts();
        switch (o.k) {
        case GHOST: if (ghosts) q.push_back(GHOST_VAL); return true;
        case PUSH: case EMPLACE:
            if (cap && (long)q.size() >= cap) return false;
            q.push_back(o.v); return true;
        case TRY_PUSH:
            if (o.ok) { if (cap && (long)q.size() >= cap) return false; q.push_back(o.v); return true; }
            return cap && (long)q.size() >= cap;
        case POP:
            if (q.empty() || q.front() != o.v) return false;
            q.pop_front(); return true;
        case TRY_POP:
            if (o.ok) { if (q.empty() || q.front() != o.v) return false; q.pop_front(); return true; }
            return q.empty();
        }
        return false;
    }
    uint64_t hash() const { uint64_t h = 1469598103934665603ull; for (uint64_t v : q) h = (h ^ v) * 1099511628211ull; return h ^ q.size(); }
};
using Ev = lin::Event<QOp>;

struct Plan { OK k; int points; };

template <class Q> auto q_pop(Q& q, typename Q::value_type& d, int) -> decltype(q.pop(d)) { q.pop(d); }
template <class Q> void q_pop(Q&, typename Q::value_type&, long) {}
template <class Q> auto q_try_push(Q& q, const typename Q::value_type& v, int) -> decltype(q.try_push(v)) { return q.try_push(v); }
template <class Q> bool q_try_push(Q& q, const typename Q::value_type& v, long) { q.push(v); return true; }
template <class Q> auto q_abort(Q& q, int) -> decltype(q.abort()) { q.abort(); }
template <class Q> void q_abort(Q&, long) {}
template <class Q> auto q_setcap(Q& q, long c, int) -> decltype(q.set_capacity(c)) { q.set_capacity(c); }
template <class Q> void q_setcap(Q&, long, long) {}

std::string history_text(const std::vector<Ev>& h) {
    std::string s;
    for (size_t i = 0; i < h.size(); ++i)
        s += hx::fmt(" #%zu[%llu,%s]%s(%llu)%s", i, (unsigned long long)h[i].inv, h[i].res == lin::PENDING ? "-" : std::to_string(h[i].res).c_str(), kOp[h[i].op.k],
                     (unsigned long long)h[i].op.v, h[i].op.ok ? "" : "=fail");
    return s;
}

template <class E, bool Bounded>
void run_queue(hx::Desc& d) {
    using Q = typename std::conditional<Bounded, tbb::concurrent_bounded_queue<E, FAlloc<E>>, tbb::concurrent_queue<E, FAlloc<E>>>::type;
    Faults faults; F = &faults;
    int nthreads = (int)sim::draw_range(2, 4, "threads");
    long cap = Bounded ? (long)sim::draw_range(0, 4, "cap") : 0;   // 0: unbounded
    static const int prefills[] = {0, 0, 1, 7, 8, 9, 30, 31, 33};
    int prefill = sim::draw_of(prefills, "prefill");
    // items that are already stored when the concurrent part begins; for the bounded queue they are pushed under the
    // default (infinite) capacity and the capacity is set afterwards, so that it may lie BELOW the current size
    // ("capacity changes": set_capacity is not a concurrent operation, it is issued at quiescence)
    static const int residents[] = {0, 0, 0, 1, 2, 3, 5};
    int resident = sim::draw_of(residents, "resident");
    // Fault-free and fault-injecting configurations are run separately (a relaxation needed for one must
    // not hide an ordinary bug in the other):  0,1 = strict (no faults), 2 = throwing constructor /
    // allocator, 3 = abort() from an extra fiber at a random point.
    static const int modes[] = {0, 0, 0, 0, 0, 2, 2, 3};
    int mode = sim::draw_of(modes, "mode");
    bool do_abort = Bounded && mode == 3;
    if (mode == 2) {
        if (sim::draw_bool("fault_kind")) faults.throw_at = (int)sim::draw_range(1, 12, "throw_at");
        else faults.alloc_fail_at = (int)sim::draw_range(1, 6, "alloc_at");
    }
    // (the recorded findings about a throwing element constructor concern concurrent_bounded_queue only: the unbounded
    //  queue gets its own mode name, so that a failure there is not attributed to them)
    const char* mode_name = do_abort ? "abort" : mode == 2 ? (faults.alloc_fail_at ? "alloc" : Bounded ? "throw" : "throw-unbounded") : "strict";
    sim::set_tag("mode=%s", mode_name);
    bool coordinator_aborted = false;
    std::vector<std::vector<Plan>> plan(nthreads);
    int total = 0;
    d.add(hx::fmt("%s elem=%dB cap=%ld prefill=%d mode=%s throw_at=%d alloc_fail_at=%d resident=%d", Bounded ? "bounded_queue" : "queue", (int)sizeof(E), cap, prefill, mode_name,
                  faults.throw_at, faults.alloc_fail_at, resident));
    for (int t = 0; t < nthreads; ++t) {
        int nops = (int)sim::draw_range(1, 6, "nops");
        std::string s = hx::fmt("T%d:", t);
        for (int i = 0; i < nops && total < 20; ++i, ++total) {
            OK k;
            if (Bounded) k = (OK)sim::draw(5, "op");
            else { static const OK u[] = {PUSH, EMPLACE, TRY_POP, TRY_POP, PUSH}; k = u[sim::draw(5, "op")]; }
            int pts = (int)sim::draw(3, "points");
            plan[t].push_back({k, pts});
            s += hx::fmt(" %s", kOp[k]);
        }
        d.add(s);
    }
    d.publish();

    Q* q = new Q;
    if (Bounded && cap && !resident) q_setcap(*q, cap, 0);
    // sequential prefill/drain moves the ticket counters close to page boundaries
    for (int i = 0; i < prefill; ++i) {
        q->push(E(900000 + i));
        E e; bool ok = q->try_pop(e); SIM_CHECK(ok && e.id == (uint64_t)(900000 + i), "oracle:fifo", "sequential prefill came out wrong");
    }
    std::vector<Ev> hist;
    QModel m0;                                    // model state at the start of the concurrent part
    for (int i = 0; i < resident; ++i) { q->push(E(800000 + i)); m0.q.push_back(800000 + i); }
    if (Bounded && cap && resident) { q_setcap(*q, cap, 0); if (resident > cap) sim::probe("capacity-below-size"); }
    faults.armed = true;

    std::vector<int> blocked_state(nthreads, 0);   // 1: inside blocking push, 2: inside blocking pop
    int aborted_ops = 0, threw_ops = 0, ghosts = 0;
    std::vector<std::function<void()>> fns;
    for (int t = 0; t < nthreads; ++t) {
        fns.push_back([&, t] {
            int seq = 0;
            for (const Plan& p : plan[t]) {
                for (int i = 0; i < p.points; ++i) sim::upoint();
                uint64_t v = (uint64_t)(t + 1) * 1000 + (uint64_t)(seq++);
                Ev e; e.op.k = p.k; e.op.v = v; e.op.ok = true;
                e.inv = sim::step();
                bool record = true;
                sim::mark_window();
                try {
                    switch (p.k) {
                    case PUSH: { E x(v); blocked_state[t] = 1; q->push(x); blocked_state[t] = 0; break; }
                    case EMPLACE: { blocked_state[t] = 1; q->emplace(v); blocked_state[t] = 0; break; }
                    case TRY_PUSH: { E x(v); e.op.ok = q_try_push(*q, x, 0); break; }
                    case POP: { E x; blocked_state[t] = 2; q_pop(*q, x, 0); blocked_state[t] = 0; e.op.v = x.id;
                                SIM_CHECK(x.intact(), "oracle:corrupt-item", "popped item %llu has a damaged payload", (unsigned long long)x.id); break; }
                    case TRY_POP: { E x; e.op.ok = q->try_pop(x); e.op.v = e.op.ok ? x.id : 0;
                                    if (e.op.ok) SIM_CHECK(x.intact(), "oracle:corrupt-item", "popped item %llu has a damaged payload", (unsigned long long)x.id);
                                    break; }
                    }
                } catch (tbb::user_abort&) {
                    blocked_state[t] = 0; record = false; ++aborted_ops;     // an aborted operation has no effect
                    SIM_CHECK(do_abort || coordinator_aborted, "oracle:spurious-abort", "user_abort thrown although abort() was never called");
                } catch (injected_throw&) {
                    blocked_state[t] = 0; record = false; ++threw_ops;       // an operation that threw has no effect
                } catch (std::bad_alloc&) {
                    blocked_state[t] = 0; record = false; ++threw_ops;
                }
                e.res = sim::step();
                if (record) hist.push_back(e);
                else if (p.k == PUSH || p.k == EMPLACE || p.k == TRY_PUSH) {
                    e.op.k = GHOST; hist.push_back(e); ++ghosts;
                    sim::set_tag("mode=%s failed-push-entries=%d", mode_name, ghosts);
                }
                // released by the coordinator at quiescence: the fiber stops (the program is over for it)
                if (coordinator_aborted) break;
            }
        });
    }
    // coordinator: judge at quiescence, then release legally blocked callers with abort()
    std::vector<int> ids;
    for (auto& f : fns) ids.push_back(sim::spawn(f, "user"));
    int abort_after = do_abort ? (int)sim::draw(40, "abort_after") : 0;
    if (do_abort) ids.push_back(sim::spawn([&] { for (int i = 0; i < abort_after; ++i) sim::upoint(); sim::fault_fired("abort"); q_abort(*q, 0); }, "aborter"));
    if (Bounded) {
        // judge at quiescence, then release the legally blocked callers; repeat (a released caller may block again)
        for (;;) {
            sim::wait_quiescent();
            bool all_done = true;
            for (int id : ids) if (!sim::fiber_done(id)) all_done = false;
            if (all_done) break;
            int bpush = 0, bpop = 0;
            for (int t = 0; t < nthreads; ++t) { if (blocked_state[t] == 1) ++bpush; if (blocked_state[t] == 2) ++bpop; }
            long pushed = 0, popped = 0;   // net content according to completed operations
            for (auto& e : hist) { if ((e.op.k == PUSH || e.op.k == EMPLACE || e.op.k == TRY_PUSH) && e.op.ok) ++pushed; if ((e.op.k == POP || e.op.k == TRY_POP) && e.op.ok) ++popped; }
            long stored = resident + pushed - popped;
            SIM_CHECK(bpush + bpop > 0, "deadlock", "fibers blocked outside a blocking queue operation");
            SIM_CHECK(!(bpop > 0 && stored > 0), "deadlock", "[mode=%s] lost wake-up: %d pop() call(s) blocked forever although %ld item(s) are stored", mode_name, bpop, stored);
            SIM_CHECK(!(bpush > 0 && cap && stored + ghosts < cap), "deadlock", "[mode=%s] lost wake-up: %d push() call(s) blocked forever although only %ld of %ld slots are used", mode_name, bpush, stored, cap);
            if (bpush > 0 && cap && stored < cap)
                sim::fail("oracle:ghost-capacity", "%d push() call(s) blocked at quiescence although only %ld of %ld slots hold items: %d earlier push(es) that ended with an exception still occupy capacity",
                          bpush, stored, cap, ghosts);
            SIM_CHECK(!(bpush > 0 && !cap), "deadlock", "push() blocked on an unbounded queue");
            sim::probe("blocked-at-quiescence");
            coordinator_aborted = true;
            q_abort(*q, 0);      // every blocked caller must return with user_abort
        }
    }
    for (int id : ids) sim::join(id);
    faults.armed = false;
    // drain: part of the history (sequential tail), ends with a failing try_pop => conservation
    for (;;) {
        Ev e; e.op.k = TRY_POP; e.inv = sim::step(); sim::upoint();
        E x; e.op.ok = q->try_pop(x); e.op.v = e.op.ok ? x.id : 0;
        sim::upoint(); e.res = sim::step();
        hist.push_back(e);
        if (!e.op.ok) break;
        SIM_CHECK(hist.size() < 60, "oracle:invented-item", "drain does not terminate");
    }
    // duplicates / invented values (cheap, gives a precise message before the general check)
    {
        std::map<uint64_t, int> pushes, pops;
        for (uint64_t v : m0.q) pushes[v]++;
        for (auto& e : hist) {
            if ((e.op.k == PUSH || e.op.k == EMPLACE || e.op.k == TRY_PUSH) && e.op.ok) pushes[e.op.v]++;
            if ((e.op.k == POP || e.op.k == TRY_POP) && e.op.ok) pops[e.op.v]++;
        }
        for (auto& kv : pops) {
            SIM_CHECK(pushes.count(kv.first), "oracle:invented-item", "[mode=%s] value %llu was popped but never pushed (or its push reported failure)", mode_name, (unsigned long long)kv.first);
            SIM_CHECK(kv.second == 1, "oracle:duplicate-item", "[mode=%s] value %llu was popped %d times", mode_name, (unsigned long long)kv.first, kv.second);
        }
        for (auto& kv : pushes) SIM_CHECK(pops.count(kv.first), "oracle:lost-item", "[mode=%s] value %llu was pushed but never came out (queue drained to empty)", mode_name, (unsigned long long)kv.first);
    }
    QModel m = m0; m.cap = cap;
    lin::Checker<QModel, QOp> chk;
    std::string why;
    bool ok = chk.check(hist, m, &why);
    if (!ok && ghosts) {
        QModel gm = m0; gm.cap = cap; gm.ghosts = true;
        std::string why2;
        if (chk.check(hist, gm, &why2))
            sim::fail("oracle:ghost-capacity", "history is linearizable only if the %d push(es) that ended with an exception keep occupying a capacity slot until a pop passes them (cap=%ld): %s; history:%s",
                      ghosts, cap, why.c_str(), history_text(hist).c_str());
    }
    if (!ok) sim::fail("oracle:not-linearizable", "[mode=%s] history is not linearizable to a FIFO queue (cap=%ld): %s; history:%s", mode_name, cap, why.c_str(), history_text(hist).c_str());
    if (threw_ops) sim::probe("op-threw");
    if (aborted_ops) sim::probe("op-aborted");
    delete q;
    if (mode < 2 && !coordinator_aborted)
        SIM_CHECK(faults.live_elems == 0, "oracle:element-balance", "%d element objects alive after the queue was destroyed (an item was lost or duplicated internally)", faults.live_elems);
    if (faults.live_bytes != 0) sim::probe("page-leak");   // not part of the property statement: reported as a probe only
    F = nullptr;
}

}  // namespace

SIM_SCENARIO(scen_c09, "c09", "C09", 600000, 3000) {
    hx::Desc d;
    int cls = (int)sim::draw(3, "elemclass");
    bool bounded = sim::draw_bool("bounded");
    switch (cls * 2 + (bounded ? 1 : 0)) {
    case 0: run_queue<Elem<8>, false>(d); break;
    case 1: run_queue<Elem<8>, true>(d); break;
    case 2: run_queue<Elem<40>, false>(d); break;
    case 3: run_queue<Elem<40>, true>(d); break;
    case 4: run_queue<Elem<304>, false>(d); break;
    case 5: run_queue<Elem<304>, true>(d); break;
    }
}
