#!/bin/bash
# Development aid: run a check against another source tree (a scratch worktree with a seeded change applied)
# without touching /repo, build/asan or evidence/.   usage: ./mutant.sh <tree> <tag> <id> [check args...]
cd "$(dirname "$0")" || exit 2
tree=$1; tag=$2; id=$3; shift 3
export VERIF_REPO=$tree VERIF_BUILD_TAG=-$tag VERIF_EVIDENCE_DIR=build/evidence-scratch VERIF_REPLAY_DIR=build/replays-scratch
exec ./check $id "$@"
