#!/usr/bin/env python3
"""Calibrate harness/run_caps.json: run each check time-bounded (explicit budget = the configured one) on this
machine, take the number of runs every scenario/flavour completed as the fixed run count of the default invocation.
usage: calibrate.py quick|thorough [ids...]      (prints any VIOLATION / TOOL line; such a check gets no cap)"""
import json, os, subprocess, sys
ROOT = os.path.dirname(os.path.abspath(__file__))
sys.path.insert(0, os.path.join(ROOT, "harness"))
from checks_cfg import CHECKS  # noqa: E402

def main():
    tier = sys.argv[1]
    ids = sys.argv[2:] or sorted(CHECKS)
    path = os.path.join(ROOT, "harness", "run_caps.json")
    caps = json.load(open(path)) if os.path.exists(path) else {}
    caps.setdefault(tier, {})
    rc_all = 0
    for pid in ids:
        cfg = CHECKS[pid]
        budget = cfg.get("quick_budget_s", 60) if tier == "quick" else cfg.get("thorough_budget_s", 900)
        p = subprocess.run([os.path.join(ROOT, "check"), pid, "--tier", tier, "--budget", str(budget)], stdout=subprocess.PIPE, stderr=subprocess.STDOUT, universal_newlines=True, cwd=ROOT)
        bad = [l for l in p.stdout.splitlines() if l.startswith("VIOLATION") or l.startswith("TOOL") or l.startswith("  class=")]
        summary = [l for l in p.stdout.splitlines() if l.startswith("[%s " % pid)]
        print("%s %s exit=%d %s" % (pid, tier, p.returncode, summary[-1][:260] if summary else ""), flush=True)
        for l in bad:
            print("   " + l[:400], flush=True)
        if p.returncode != 0:
            rc_all = 1
            continue
        ev = json.load(open(os.path.join(ROOT, "evidence", pid + ".json")))
        for k, v in ev["coverage"]["per_scenario"].items():
            caps[tier][k] = int(v["runs"] * 1.0)
        json.dump(caps, open(path, "w"), indent=1, sort_keys=True)
    return rc_all

if __name__ == "__main__":
    sys.exit(main())
