# Builds the simulator, oneTBB (from /repo's CURRENT working tree) and all scenarios.
# usage: make -f build.mk FLAVOUR=asan|fast [-j16]
REPO    ?= /repo
FLAVOUR ?= asan
TAG     ?=
B       := build/$(FLAVOUR)$(TAG)
CXX     := g++

COMMON  := -std=c++17 -g -fno-omit-frame-pointer -pthread \
           -flifetime-dse=1 -fno-strict-overflow -fno-delete-null-pointer-checks -fwrapv -mrtm \
           -I$(REPO)/include -I$(REPO)/src -Isim -Iharness \
           -DONETBB_VERIF_SIM=1 -DONETBB_VERIF_MIN_TASK_POOL=4 -DONETBB_VERIF_BACKREF_LEAF=8 -D__TBB_RESUMABLE_TASKS_USE_THREADS=0 \
           -Wno-deprecated-declarations
ifeq ($(FLAVOUR),asan)
SAN     := -fsanitize=address,undefined -fno-sanitize-recover=all -fno-sanitize=vptr
OPT     := -O1 $(SAN)
TBBDBG  := -DTBB_USE_ASSERT=1
MALDBG  := -DTBB_USE_DEBUG=1
else
SAN     :=
OPT     := -O2
TBBDBG  := -DTBB_USE_ASSERT=0 -DNDEBUG
MALDBG  := -DNDEBUG
endif
PRELUDE := -include sim/prelude.h

TBB_SRC := $(wildcard $(REPO)/src/tbb/*.cpp)
TBB_OBJ := $(patsubst $(REPO)/src/tbb/%.cpp,$(B)/tbb/%.o,$(TBB_SRC))
MAL_SRC := $(wildcard $(REPO)/src/tbbmalloc/*.cpp)
MAL_OBJ := $(patsubst $(REPO)/src/tbbmalloc/%.cpp,$(B)/tbbmalloc/%.o,$(MAL_SRC))
SCN_SRC := $(wildcard harness/scen_*.cpp) harness/warmup.cpp
SCN_OBJ := $(patsubst harness/%.cpp,$(B)/harness/%.o,$(SCN_SRC))
SIM_OBJ := $(B)/sim/sim_rt.o $(B)/sim/ctx.o $(B)/harness/driver.o

all: $(B)/simtbb

$(B)/simtbb: $(TBB_OBJ) $(MAL_OBJ) $(SCN_OBJ) $(SIM_OBJ)
	$(CXX) $(OPT) -o $@ $(SCN_OBJ) $(SIM_OBJ) $(TBB_OBJ) $(MAL_OBJ) -pthread -ldl

$(B)/tbb/%.o: $(REPO)/src/tbb/%.cpp sim/prelude.h sim/sim_atomic.h sim/sim.h
	@mkdir -p $(dir $@)
	$(CXX) $(COMMON) $(OPT) $(TBBDBG) $(PRELUDE) -D__TBB_BUILD -MMD -MP -c $< -o $@

$(B)/tbbmalloc/%.o: $(REPO)/src/tbbmalloc/%.cpp sim/prelude.h sim/sim_atomic.h sim/sim.h
	@mkdir -p $(dir $@)
	$(CXX) $(COMMON) $(OPT) $(MALDBG) $(PRELUDE) -D__TBBMALLOC_BUILD -fvisibility=hidden -fno-rtti -fno-exceptions -MMD -MP -c $< -o $@

$(B)/harness/driver.o: harness/driver.cpp sim/sim_rt.h
	@mkdir -p $(dir $@)
	$(CXX) $(COMMON) $(OPT) -MMD -MP -c $< -o $@

# UBSan's null check is switched off for the translation units that instantiate the flow graph: oneTBB's
# tagged buffer computes element_ptr->get_value_ptr() on a null element before looking at the 'found' flag
# (_flow_graph_tagged_buffer_impl.h find_ref_with_key) - a benign idiom, not a violation of a listed property.
# Real null dereferences still fault and are reported by ASan.
ifeq ($(FLAVOUR),asan)
EXTRA_scen_c03 := -fno-sanitize=null
EXTRA_scen_c14 := -fno-sanitize=null
EXTRA_scen_c15 := -fno-sanitize=null
EXTRA_scen_c01c := -fno-sanitize=null
EXTRA_scen_c20 := -fno-sanitize=null
endif
EXTRA_scen_c11 += -fno-access-control
$(B)/harness/%.o: harness/%.cpp sim/prelude.h sim/sim_atomic.h sim/sim.h
	@mkdir -p $(dir $@)
	$(CXX) $(COMMON) $(OPT) $(EXTRA_$*) $(TBBDBG) $(PRELUDE) -MMD -MP -c $< -o $@

$(B)/sim/sim_rt.o: sim/sim_rt.cpp sim/prelude.h sim/sim_atomic.h sim/sim.h sim/sim_rt.h
	@mkdir -p $(dir $@)
	$(CXX) $(COMMON) $(OPT) -MMD -MP -c $< -o $@

$(B)/sim/ctx.o: sim/ctx.S
	@mkdir -p $(dir $@)
	$(CXX) -c $< -o $@

-include $(TBB_OBJ:.o=.d) $(MAL_OBJ:.o=.d) $(SCN_OBJ:.o=.d) $(SIM_OBJ:.o=.d)

.PHONY: all
