#!/bin/bash
# Runs the registered quick (or thorough) command of every property on /repo as it is and rewrites evidence/.
# usage: ./run_all.sh [quick|thorough] [ids...]
cd "$(dirname "$0")" || exit 2
tier=${1:-quick}; shift
ids=${@:-"C01 C02 C03 C04 C05 C06 C07 C08 C09 C10 C11 C12 C13 C14 C15 C16 C17 C18 C19 C20"}
git -C /repo diff --quiet || { echo "/repo has local modifications; refusing"; exit 2; }
rc=0
for id in $ids; do
  out=$(./check $id --tier $tier 2>&1); code=$?
  echo "$id exit=$code $(echo "$out" | grep "^\[$id" | cut -c1-260)"
  echo "$out" | grep -A1 "^VIOLATION\|^TOOL\|^KNOWN" | cut -c1-300
  [ $code -ne 0 ] && rc=1
done
exit $rc
