#!/bin/bash
# Soak: every quick check at several stripe origins; prints one line per check and any VIOLATION / TOOL-ERROR.
# usage: ./sweep.sh "<seed list>" [ids...]
export VERIF_EVIDENCE_DIR=build/evidence-scratch   # evidence/ only ever holds runs of the registered commands on the unchanged tree
seeds=${1:-"1000001 2000001 3000001"}; shift
ids=${@:-"C01 C02 C03 C04 C05 C06 C07 C08 C09 C10 C11 C12 C13 C14 C15 C16 C17 C18 C19 C20"}
make -f build.mk FLAVOUR=asan -j16 ${VERIF_REPO:+REPO=$VERIF_REPO} >/dev/null 2>&1 || { echo BUILD-FAILED; exit 2; }
rc=0
for s in $seeds; do
  for id in $ids; do
    out=$(VERIF_SEED=$s nice -n 5 ./check $id --tier quick 2>&1); code=$?
    echo "seed=$s $id exit=$code $(echo "$out" | grep "^\[$id" | cut -c1-220)"
    echo "$out" | grep -A1 "^VIOLATION\|^TOOL" | cut -c1-400
    [ $code -ne 0 ] && rc=1
  done
done
exit $rc
