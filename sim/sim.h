// Deterministic simulator for oneTBB: public API (harness side) and the inline hot path
// used by the shims in sim_atomic.h / prelude.h.  See /verif/DESIGN.md section 3.
#pragma once
#include <cstdint>
#include <cstddef>
#include <cstdarg>
#include <functional>
#include <string>
#include <vector>

namespace sim {

enum Kind : uint8_t {
    K_LOAD = 0, K_STORE, K_RMW, K_FENCE, K_PAUSE, K_YIELD, K_FUTEX_WAIT, K_FUTEX_WAKE, K_SEM,
    K_CLOCK, K_SLEEP, K_THR_CREATE, K_THR_JOIN, K_THR_EXIT, K_MMAP, K_USER, K_BLOCK, K_NKINDS
};

// 1 while a simulated run is in progress on this OS thread (shims are inert otherwise).
extern int g_active;
// Incremented by every state-changing step (store/RMW that changes the value, wake, create, exit).
extern uint64_t g_progress;

void point_slow(int kind, const void* addr);
inline void point(int kind, const void* addr) { if (g_active) point_slow(kind, addr); }
// explicit schedule point for harness bodies ("interior" of a critical section / body)
inline void upoint() { if (g_active) point_slow(K_USER, nullptr); }
inline void changed() { ++g_progress; }

// ---- PRNG (xoshiro256**) -------------------------------------------------------------------
struct Rng {
    uint64_t s[4];
    void seed(uint64_t x);
    uint64_t next();
    uint64_t below(uint64_t n) { return n <= 1 ? 0 : next() % n; }
    bool chance(double p) { return (next() >> 11) * (1.0 / 9007199254740992.0) < p; }
};

// ---- program tape: every generator choice of a scenario ----------------------------------------
// draw(n) returns a value in [0,n).  In search mode values come from the program PRNG stream and
// are recorded; in replay/minimisation mode they come from the recorded tape (values beyond the
// end of the tape are 0 = the simplest choice, values are reduced modulo n).
uint64_t draw(uint64_t n, const char* label = nullptr);
inline bool draw_bool(const char* label = nullptr) { return draw(2, label) != 0; }
// value in [lo,hi]
inline int64_t draw_range(int64_t lo, int64_t hi, const char* label = nullptr) {
    return lo + (int64_t)draw((uint64_t)(hi - lo + 1), label);
}
// draw one of the listed values
template <class T, size_t N> T draw_of(const T (&a)[N], const char* label = nullptr) { return a[draw(N, label)]; }

// ---- fibers ---------------------------------------------------------------------------------
int  spawn(std::function<void()> fn, const char* name = "user", size_t stack_bytes = 0);
void join(int fid);
int  self();            // fiber id, -1 outside a run
bool is_scenario_fiber(int fid);
bool fiber_done(int fid);
uint64_t step();        // global schedule-point counter (total order stamp)
uint64_t now_ns();      // simulated clock
int  nfibers();

// harness-level blocking visible to the scheduler
struct event {
    bool flag = false;
    void wait();
    void signal();
    bool is_set() const { return flag; }
};
// Block until every other scenario fiber is blocked or done (workers may be in any state that
// cannot make a scenario fiber runnable without further input: blocked or done).  Returns true if
// quiescence reached.
void wait_quiescent();
// number of scenario fibers (other than the caller) currently blocked inside the simulator
int  blocked_scenario_fibers();

// Watch: fn(kind, addr) is called right before an atomic operation on [lo,hi) is performed (after
// the scheduler let the fiber proceed, so the order of callbacks is the order of the operations).
void set_watch(const void* lo, const void* hi, void (*fn)(int kind, const void* addr));
// number of pause/yield points executed so far by the calling fiber
uint64_t my_spin_points();
// while set, the calling fiber must not block in a futex/semaphore wait (try_* operations)
void set_noblock(bool on);

// worker allotment decided by the market (hook H7): fn(soft_limit, mandatory_requests, total_demand, n, level[], min[], max[], allotted[])
void set_allotment_observer(std::function<void(int, int, int, int, const int*, const int*, const int*, const int*)> fn);

// ---- verdicts ---------------------------------------------------------------------------------
[[noreturn]] void fail(const char* cls, const char* fmt, ...) __attribute__((format(printf, 2, 3)));
#define SIM_CHECK(cond, cls, ...) do { if (!(cond)) ::sim::fail(cls, __VA_ARGS__); } while (0)
void probe(const char* name);                 // reach counter ("this rare branch was hit")
void fault_fired(const char* kind);           // fault accounting for evidence
void note(const char* fmt, ...) __attribute__((format(printf, 1, 2)));   // goes to the trace only
// mark the run as non-trivial-eligible: >=2 fibers were inside the operation window
// free-form context appended to deadlock / livelock / budget messages (used to attribute hangs)
void set_tag(const char* fmt, ...) __attribute__((format(printf, 1, 2)));
// After an injected fault some properties promise safety only: a hang (deadlock/livelock) is then reported with
// class "hang-after-fault", which checks count as inconclusive, not as a violation.
void set_hang_after_fault_ok(bool on);
// Optional: called when a hang is about to be classed "hang-after-fault"; return true if this hang is one of the
// tolerated kinds, false (and a reason in why) to report it as the deadlock/livelock it is.
void set_hang_triage(bool (*fn)(char* why, size_t n));
// address of the latest schedule point of a fiber (what a spinning fiber keeps reading)
const void* last_point_addr(int fid);
void mark_window();
void set_sample(const std::string& program_text);   // human-readable program for evidence samples

// ---- scheduler-level random choices (faults attached to sites) -------------------------------
// Returns true with the run's configured probability for this fault kind; recorded in the
// decision log so that replay reproduces it.  kind is a short static string.
bool fault(const char* kind, double p);
// scheduler-level choice in [0,n) (e.g. which sleeper a wake picks)
uint32_t sched_choice(uint32_t n, const char* what);

// ---- configuration visible to shims ----------------------------------------------------------
struct Config {
    int P = 4;                    // simulated machine size (sched_getaffinity / sysconf)
    int spin_knob = -1;           // H3: -1 default thresholds, else number of spins before sleep
    bool tso = false;             // store buffers on registered regions
    int strategy = 0;
    uint64_t step_budget = 2000000;
    uint64_t oom_at = 0;          // F-oom: fail the k-th raw mmap (1-based), 0 = never
    uint64_t oom_until = 0;       // ... and all up to this index (inclusive) when > oom_at
    size_t oom_size = 0;          // F-oom aimed at one kind of request: the oom_size_nth raw mmap of exactly this length
    int oom_size_nth = 0;         // ... starts the refusal window (oom_at = that call, oom_until = oom_at + oom_size_len)
    uint64_t oom_size_len = 0;
};
extern Config g_cfg;

// "Stale read" amplifier (strategy hunt): words that work like a version / mask / epoch.  A fiber that has just loaded
// such a word is, now and then, held back right after the load until another fiber writes the word (plus a few points),
// so that the value it carries is stale when it goes on to use it.
void stale_watch(const void* p, size_t n);
// TSO regions (DESIGN 3.5)
void tso_register(const void* p, size_t n);
void tso_unregister(const void* p, size_t n);

// raw memory log (C17/C18)
uint64_t mmap_calls();

// ---- running ---------------------------------------------------------------------------------
struct RunResult {
    std::string verdict_class;    // "ok", "oracle:...", "deadlock", "livelock", "budget", ...
    std::string message;
    uint64_t steps = 0, switches = 0, sim_ns = 0, event_hash = 0;
};

}  // namespace sim
