// Simulator runtime: fibers, seeded scheduler, simulated clock, futex / semaphore / thread / TLS
// emulation, raw-memory layer, store buffers, decision log.  See /verif/DESIGN.md section 3.
#define SIM_NO_RENAME 1
#include "prelude.h"
#include "sim_rt.h"
#include <cxxabi.h>
#include <signal.h>

#if defined(__SANITIZE_ADDRESS__)
#include <sanitizer/common_interface_defs.h>
#include <sanitizer/asan_interface.h>
#define SIM_ASAN 1
#else
#define SIM_ASAN 0
#endif

extern "C" void sim_ctx_switch(void** save_sp, void* load_sp);
extern "C" void sim_ctx_tramp();

namespace __cxxabiv1 {
struct __cxa_eh_globals;
extern "C" __cxa_eh_globals* __cxa_get_globals() noexcept;
}

namespace sim {

int g_active = 0;
uint64_t g_progress = 0;
int g_tso_on = 0;
Config g_cfg;

// ------------------------------------------------------------------------------------------ rng
static inline uint64_t rotl(uint64_t x, int k) { return (x << k) | (x >> (64 - k)); }
static uint64_t splitmix(uint64_t& x) {
    uint64_t z = (x += 0x9e3779b97f4a7c15ull);
    z = (z ^ (z >> 30)) * 0xbf58476d1ce4e5b9ull;
    z = (z ^ (z >> 27)) * 0x94d049bb133111ebull;
    return z ^ (z >> 31);
}
void Rng::seed(uint64_t x) { for (auto& v : s) v = splitmix(x); }
uint64_t Rng::next() {
    uint64_t r = rotl(s[1] * 5, 7) * 9, t = s[1] << 17;
    s[2] ^= s[0]; s[3] ^= s[1]; s[1] ^= s[2]; s[0] ^= s[3]; s[2] ^= t; s[3] = rotl(s[3], 45);
    return r;
}

// ------------------------------------------------------------------------------------ scenarios
static ScenarioDef g_scen[64];
static int g_nscen = 0;
void register_scenario(const ScenarioDef& d) { if (g_nscen < 64) g_scen[g_nscen++] = d; }
int n_scenarios() { return g_nscen; }
const ScenarioDef& scenario(int i) { return g_scen[i]; }
int find_scenario(const char* name) {
    for (int i = 0; i < g_nscen; ++i) if (!strcmp(g_scen[i].name, name)) return i;
    return -1;
}

// --------------------------------------------------------------------------------------- fibers
enum FState : uint8_t { F_RUNNABLE, F_BLOCKED, F_DONE };
enum BlockKind : uint8_t { B_NONE, B_FUTEX, B_SEM, B_JOIN, B_EVENT, B_SLEEP, B_QUIESCE };

constexpr int MAX_KEYS = 128;
constexpr int MAX_FIBERS = 256;
constexpr int TSO_CAP = 8;

static const uint64_t TSO_MAX_AGE = 400;   // schedule points
struct TsoEntry { void* addr; uint32_t n; unsigned char val[16]; uint64_t born; };

struct EhGlobals { void* caught; unsigned int uncaught; };

struct Fiber {
    const void* last_addr;     // address of the fiber's latest schedule point that had one
    int id;
    FState state;
    BlockKind bkind;
    bool scenario;          // created by the harness (not a TBB worker)
    bool detached;
    const void* bkey;       // futex address / sem / event / joined fiber
    uint64_t wake_ns;       // for B_SLEEP
    uint64_t sleep_step;    // step at which the sleep began
    void* sp;
    char* stack_lo;         // lowest usable address
    size_t stack_size;
    const void* cur_stack_bottom;  // for ASan annotations (may be a TBB coroutine stack)
    size_t cur_stack_size;
    void* fake_stack;
    EhGlobals eh;
    void* tls[MAX_KEYS];
    std::function<void()>* fn;
    void* (*cfn)(void*);
    void* carg;
    const char* name;
    uint64_t last_run_step;
    int64_t prio;           // PCT
    uint64_t ro_steps;      // consecutive read-only steps
    TsoEntry tso[TSO_CAP];
    int tso_n;
    bool wake_flag;         // woken by futex wake (vs spurious)
    bool noblock;
    uint64_t spin_points;
    uint32_t spin_run;         // consecutive pause/yield points (loads in between allowed): the fiber is in a spin-wait loop
    const void* spin_addr;     // the word it polls there
};

static Fiber* g_fibers[MAX_FIBERS];
static int g_nfib = 0;
static Fiber* g_cur = nullptr;
static void* g_main_sp = nullptr;
static void* g_main_tls[MAX_KEYS];
struct KeySlot { bool used; void (*dtor)(void*); };
static KeySlot g_keys[MAX_KEYS];

static Shared* g_out = nullptr;
static const Job* g_job = nullptr;
static const uint64_t* g_in_tape = nullptr;
static const Dec* g_in_dec = nullptr;
static uint32_t g_dec_pos = 0;

static Rng g_rng_prog, g_rng_sched, g_rng_clock;
static uint64_t g_step = 0, g_switches = 0, g_preempts = 0, g_now = 0, g_hash = 1469598103934665603ull;
static uint64_t g_sig = 1469598103934665603ull;
static uint64_t g_choice_no = 0;
static uint64_t g_last_progress = 0, g_last_progress_step = 0, g_user_mark = 0;
static uint64_t g_mmap_calls = 0;
static uint64_t g_time_salt = 0;
static bool g_trace = false, g_replay = false, g_faults_on = true;
static int g_strategy = 0;
static double g_stay_p = 0.9;
static int g_stall_victim = -1;
static uint64_t g_stall_from = 0, g_stall_to = 0;
static uint64_t g_pct_change[8];
static int g_pct_nchange = 0;
static int64_t g_pct_low = -1;
static uint32_t g_tape_pos = 0;
static int g_window = 0;
static uint64_t g_clock_scale = 16;  // /16 fixed point

enum { S_RW = 0, S_BURST, S_PCT, S_STALL, S_HUNT, S_NSTRAT };
static const char* const kStratName[] = {"rw", "burst", "pct", "stall", "hunt"};
// S_HUNT ("lost wake-up hunter"): a fiber that gives up spinning on a word and turns to its sleep path (first
// store / RMW / fence / futex call after >= 8 spin points) is held back right there until another fiber writes
// that word (plus a few points), so that the state change and its notification fall into the sleeper's
// prepare-wait / re-check window; otherwise the strategy behaves like S_BURST.
static int g_hunt_victim = -1, g_hunts_left = 0;
static const void* g_hunt_addr = nullptr;
static uint64_t g_hunt_release_at = 0;
static int g_force_fiber = -1, g_force_left = 0;   // burst granted to a fiber that was starved
static int g_hunt_pending = -1;     // fiber that has just loaded a watched word: held from its next point on
static int g_stale_left = 0;        // budget of such holds per run
static bool g_hunt_stale = false;   // the current hold is of that kind
static bool g_hunt_write_seen = false;
static struct { const char* lo; const char* hi; } g_stale[8]; static int g_nstale = 0;
static uint32_t g_drain_n = 4;      // a buffered store is drained with probability 1/g_drain_n per schedule point (per run: 4, 16 or 64)

static const uint32_t kCost[K_NKINDS] = {1, 1, 5, 5, 20, 20000, 2000, 2000, 2000, 25, 100, 20000, 100, 100, 3000, 10, 10};
static const char* const kKindName[K_NKINDS] = {"load", "store", "rmw", "fence", "pause", "yield", "futex_wait", "futex_wake",
                                                "sem", "clock", "sleep", "thr_create", "thr_join", "thr_exit", "mmap", "user", "block"};

static inline void hash_mix(uint64_t& h, uint64_t v) { h = (h ^ v) * 1099511628211ull; }

// ------------------------------------------------------------------------------------ trace buffer
static char* g_trbuf = nullptr; static size_t g_trlen = 0; constexpr size_t TR_CAP = 256u << 20;
static void tr(const char* fmt, ...) __attribute__((format(printf, 1, 2)));
static void tr(const char* fmt, ...) {
    if (!g_trbuf || g_trlen + 600 > TR_CAP) return;
    va_list ap; va_start(ap, fmt);
    int n = vsnprintf(g_trbuf + g_trlen, 600, fmt, ap);
    va_end(ap);
    if (n > 0) g_trlen += (size_t)(n < 600 ? n : 599);
}
static void tr_flush() {
    size_t off = 0;
    while (off < g_trlen) { ssize_t r = ::write(2, g_trbuf + off, g_trlen - off); if (r <= 0) break; off += (size_t)r; }
    g_trlen = 0;
}

// ------------------------------------------------------------------------------------ reporting
static void copy_counts();
static void dump_backtraces();
static void describe_blocked(char* buf, size_t n);
[[noreturn]] static void finish(const char* cls, const char* msg) {
    g_active = 0;
    if (g_trace && strcmp(cls, "ok") != 0) dump_backtraces();
    if (g_out) {
        snprintf(g_out->cls, sizeof g_out->cls, "%s", cls);
        snprintf(g_out->msg, sizeof g_out->msg, "%s", msg ? msg : "");
        g_out->steps = g_step; g_out->switches = g_switches; g_out->preempts = g_preempts; g_out->sim_ns = g_now;
        g_out->hash = g_hash; g_out->sig_hash = g_sig; g_out->choices = g_choice_no;
        g_out->nfibers = g_nfib; g_out->window = g_window; g_out->strategy = g_strategy; g_out->tso = g_cfg.tso;
        g_out->faults_on = g_faults_on; g_out->P = g_cfg.P;
        __sync_synchronize();
        g_out->done = 1;
    }
    if (g_trace) { char fb[1500]; describe_blocked(fb, sizeof fb); tr("[sim] fibers: %s\n", fb); tr("[sim] verdict %s: %s steps=%llu\n", cls, msg ? msg : "", (unsigned long long)g_step); tr_flush(); }
    fflush(stderr);
    _exit(0);
}

static void on_fatal_signal(int sig) {
    // keep what we know for the parent (done stays 0: the zygote classifies from the exit status)
    if (g_out) { g_out->steps = g_step; g_out->switches = g_switches; g_out->preempts = g_preempts; g_out->sim_ns = g_now;
                 g_out->hash = g_hash; g_out->sig_hash = g_sig; g_out->nfibers = g_nfib; g_out->window = g_window;
                 g_out->strategy = g_strategy; g_out->tso = g_cfg.tso; g_out->faults_on = g_faults_on; g_out->P = g_cfg.P; }
    if (g_trace) { tr("[sim] fatal signal %d at step %llu in f%d\n", sig, (unsigned long long)g_step, self()); tr_flush(); }
    signal(sig, SIG_DFL);
    raise(sig);
}

static bool g_hang_ok = false;
static bool (*g_hang_triage)(char*, size_t) = nullptr;
void set_hang_after_fault_ok(bool on) { g_hang_ok = on; }
void set_hang_triage(bool (*fn)(char* why, size_t n)) { g_hang_triage = fn; }
const void* last_point_addr(int fid) { return fid >= 0 && fid < g_nfib ? g_fibers[fid]->last_addr : nullptr; }

void fail(const char* cls, const char* fmt, ...) {
    char buf[1800], why[300]; why[0] = 0;
    bool hang = !strcmp(cls, "deadlock") || !strcmp(cls, "livelock");
    // a hang after an injected fault is inconclusive unless the scenario's triage says this hang site is not one
    // of the tolerated ones
    if (g_hang_ok && hang && (!g_hang_triage || g_hang_triage(why, sizeof why))) cls = "hang-after-fault";
    va_list ap; va_start(ap, fmt); vsnprintf(buf, sizeof buf, fmt, ap); va_end(ap);
    if (why[0]) { size_t l = strlen(buf); snprintf(buf + l, sizeof buf - l, " | %s", why); }
    finish(cls, buf);
}

static NamedCount* find_count(NamedCount* arr, uint32_t& n, uint32_t cap, const char* name) {
    for (uint32_t i = 0; i < n; ++i) if (!strncmp(arr[i].name, name, sizeof arr[i].name - 1)) return &arr[i];
    if (n >= cap) return nullptr;
    snprintf(arr[n].name, sizeof arr[n].name, "%s", name); arr[n].n = 0;
    return &arr[n++];
}
void probe(const char* name) {
    if (!g_out) return;
    if (auto* c = find_count(g_out->probes, g_out->n_probes, 128, name)) c->n++;
    if (g_trace) tr("[sim] %llu f%d probe %s\n", (unsigned long long)g_step, self(), name);
}
void fault_fired(const char* kind) {
    if (!g_out) return;
    if (auto* c = find_count(g_out->faults, g_out->n_faults, 32, kind)) c->n++;
    hash_mix(g_sig, 0xfa17 + (uint64_t)kind[0] * 131 + g_step);
    if (g_trace) tr("[sim] %llu f%d FAULT %s\n", (unsigned long long)g_step, self(), kind);
}
void note(const char* fmt, ...) {
    if (!g_trace) return;
    char buf[512]; va_list ap; va_start(ap, fmt); vsnprintf(buf, sizeof buf, fmt, ap); va_end(ap);
    tr("[sim] %llu f%d note %s\n", (unsigned long long)g_step, self(), buf);
}
static char g_tag[160];
void set_tag(const char* fmt, ...) {
    va_list ap; va_start(ap, fmt); vsnprintf(g_tag, sizeof g_tag, fmt, ap); va_end(ap);
    if (g_out) memcpy(g_out->tag, g_tag, sizeof g_tag);
}
void mark_window() { g_window = 1; }
void set_sample(const std::string& s) { if (g_out) snprintf(g_out->sample, sizeof g_out->sample, "%s", s.c_str()); }

// ----------------------------------------------------------------------------------------- tape
uint64_t draw(uint64_t n, const char* label) {
    uint64_t v;
    if (g_job && (g_job->flags & JF_HAS_TAPE)) {
        v = g_tape_pos < g_job->tape_len ? g_in_tape[g_tape_pos] : 0;
        if (n) v %= n;
    } else {
        v = n <= 1 ? 0 : g_rng_prog.next() % n;
    }
    ++g_tape_pos;
    if (g_out) {
        if (g_out->tape_len < MAX_TAPE) g_out->tape[g_out->tape_len++] = v; else g_out->tape_overflow = 1;
    }
    hash_mix(g_sig, v + 0x7a9e);
    if (g_trace) tr("[sim] draw %s n=%llu -> %llu\n", label ? label : "", (unsigned long long)n, (unsigned long long)v);
    return v;
}

// ------------------------------------------------------------------------------------ decisions
static void log_dec(uint64_t key, uint32_t kind, uint32_t val) {
    if (!g_out) return;
    if (g_out->dec_len < MAX_DEC) { Dec& d = g_out->dec[g_out->dec_len++]; d.key = key; d.kind = kind; d.val = val; }
    else g_out->dec_overflow = 1;
}
// replay: find forced decision for (kind,key); decisions are sorted by occurrence order
static bool forced(uint32_t kind, uint64_t key, uint32_t& val) {
    // skip stale entries (keys in the past for this kind cannot match any more)
    uint32_t i = g_dec_pos;
    while (i < g_job->dec_len) {
        const Dec& d = g_in_dec[i];
        uint64_t cur_key_for_kind = d.kind == D_SWITCH ? g_step : g_choice_no;
        if (d.key < cur_key_for_kind) { ++i; continue; }
        break;
    }
    g_dec_pos = i;
    // look ahead a little: entries of the other kind may precede
    for (uint32_t j = i; j < g_job->dec_len && j < i + 256; ++j) {
        const Dec& d = g_in_dec[j];
        if (d.kind == kind && d.key == key) { val = d.val; return true; }
        if (d.kind == kind && d.key > key) break;
    }
    return false;
}

struct FaultKind { const char* name; bool enabled; };
static FaultKind g_fk[32]; static int g_nfk = 0;
static bool fault_enabled(const char* kind) {
    for (int i = 0; i < g_nfk; ++i) if (g_fk[i].name == kind || !strcmp(g_fk[i].name, kind)) return g_fk[i].enabled;
    bool en = g_faults_on && g_rng_sched.chance(0.6);
    if (g_nfk < 32) g_fk[g_nfk++] = {kind, en};
    return en;
}

uint32_t sched_choice(uint32_t n, const char* what) {
    if (n <= 1) return 0;
    uint64_t key = g_choice_no++;
    uint32_t v = 0;
    if (g_replay) { if (forced(D_CHOICE, key, v)) v %= n; else v = 0; }
    else v = (uint32_t)g_rng_sched.below(n);
    if (v) log_dec(key, D_CHOICE, v);
    if (v) hash_mix(g_sig, 0xc401ce + v);
    if (g_trace) tr("[sim] %llu f%d choice#%llu %s n=%u -> %u\n", (unsigned long long)g_step, self(), (unsigned long long)key, what, n, v);
    return v;
}

bool fault(const char* kind, double p) {
    if (!g_active) return false;
    uint64_t key = g_choice_no++;
    uint32_t v = 0;
    if (g_replay) { if (!forced(D_CHOICE, key, v)) v = 0; }
    else if (fault_enabled(kind)) v = g_rng_sched.chance(p) ? 1 : 0;
    if (v) { log_dec(key, D_CHOICE, v); fault_fired(kind); }
    return v != 0;
}

// ------------------------------------------------------------------------------------------ TSO
struct Region { const char* lo; const char* hi; };
static Region g_regions[64]; static int g_nregions = 0;
static bool in_region(const void* p) {
    const char* c = (const char*)p;
    for (int i = 0; i < g_nregions; ++i) if (c >= g_regions[i].lo && c < g_regions[i].hi) return true;
    return false;
}
static void tso_drain_one(Fiber* f) {
    if (f->tso_n == 0) return;
    TsoEntry& e = f->tso[0];
    if (memcmp(e.addr, e.val, e.n) != 0) changed();
    memcpy(e.addr, e.val, e.n);
    memmove(&f->tso[0], &f->tso[1], sizeof(TsoEntry) * (f->tso_n - 1));
    f->tso_n--;
}
static void tso_drain_all(Fiber* f) { while (f->tso_n) tso_drain_one(f); }
void tso_drain_self() { if (g_cur) tso_drain_all(g_cur); }
bool tso_store(void* addr, const void* val, size_t n, int) {
    if (!g_cur || n > 16) return false;
    Fiber* f = g_cur;
    // TSO keeps the stores of one thread in program order: an atomic store to an address outside the registered
    // regions must not become visible before earlier stores of this fiber that are still buffered.  It is not queued
    // (its target may be a stack object that is gone when the queue drains); the queue is drained first instead.
    if (!in_region(addr)) { tso_drain_all(f); return false; }
    if (f->tso_n == TSO_CAP) tso_drain_one(f);
    TsoEntry& e = f->tso[f->tso_n++];
    e.addr = addr; e.n = (uint32_t)n; memcpy(e.val, val, n); e.born = g_step;
    return true;
}
bool tso_load(const void* addr, void* out, size_t n) {
    Fiber* f = g_cur;
    if (!f) return false;
    for (int i = f->tso_n - 1; i >= 0; --i)
        if (f->tso[i].addr == addr && f->tso[i].n == n) { memcpy(out, f->tso[i].val, n); return true; }
    return false;
}
void stale_watch(const void* p, size_t n) { if (g_nstale < 8) { g_stale[g_nstale].lo = (const char*)p; g_stale[g_nstale].hi = (const char*)p + n; ++g_nstale; } }
void tso_register(const void* p, size_t n) {
    if (!g_cfg.tso || g_nregions >= 64) return;
    g_regions[g_nregions++] = {(const char*)p, (const char*)p + n};
    g_tso_on = 1;
}
void tso_unregister(const void* p, size_t) {
    for (int i = 0; i < g_nfib; ++i) tso_drain_all(g_fibers[i]);
    for (int i = 0; i < g_nregions; ++i)
        if (g_regions[i].lo == (const char*)p) { g_regions[i] = g_regions[--g_nregions]; break; }
    if (g_nregions == 0) g_tso_on = 0;
}

// ------------------------------------------------------------------------------------ switching
static inline EhGlobals* eh_globals() { return reinterpret_cast<EhGlobals*>(__cxxabiv1::__cxa_get_globals()); }

static void switch_to(Fiber* next) {
    Fiber* prev = g_cur;
    if (prev) prev->eh = *eh_globals();
    g_cur = next;
    ++g_switches;
    next->last_run_step = g_step;
#if SIM_ASAN
    __sanitizer_start_switch_fiber((prev && prev->state != F_DONE) ? &prev->fake_stack : nullptr, next->cur_stack_bottom, next->cur_stack_size);
#endif
    sim_ctx_switch(prev ? &prev->sp : &g_main_sp, next->sp);
    // resumed
#if SIM_ASAN
    __sanitizer_finish_switch_fiber(g_cur->fake_stack, nullptr, nullptr);
#endif
    *eh_globals() = g_cur->eh;
}

static void run_tls_dtors(Fiber* f) {
    for (int round = 0; round < 4; ++round) {
        bool any = false;
        for (int k = 0; k < MAX_KEYS; ++k) {
            if (g_keys[k].used && g_keys[k].dtor && f->tls[k]) {
                void* v = f->tls[k]; f->tls[k] = nullptr; any = true;
                g_keys[k].dtor(v);
            }
        }
        if (!any) break;
    }
}

static void schedule(int kind);
static void block_here();
static void wake(Fiber* f) { f->state = F_RUNNABLE; f->bkind = B_NONE; f->bkey = nullptr; changed(); }

static void fiber_entry(void* arg) {
    Fiber* f = (Fiber*)arg;
#if SIM_ASAN
    __sanitizer_finish_switch_fiber(nullptr, nullptr, nullptr);
#endif
    *eh_globals() = EhGlobals{nullptr, 0};
    try {
        if (f->fn) { (*f->fn)(); }
        else f->cfn(f->carg);
    } catch (std::exception& e) {
        fail(f->scenario ? "tool:harness-exception" : "oracle:exception-escaped-worker", "exception escaped fiber %d (%s): %s", f->id, f->name, e.what());
    } catch (...) {
        fail(f->scenario ? "tool:harness-exception" : "oracle:exception-escaped-worker", "unknown exception escaped fiber %d (%s)", f->id, f->name);
    }
    point(K_THR_EXIT, nullptr);
    run_tls_dtors(f);
    tso_drain_all(f);
    f->state = F_DONE;
    changed();
    for (int i = 0; i < g_nfib; ++i) {
        Fiber* o = g_fibers[i];
        if (o->state == F_BLOCKED && o->bkind == B_JOIN && o->bkey == f) wake(o);
    }
    bool all_done = true;
    for (int i = 0; i < g_nfib; ++i) if (g_fibers[i]->scenario && g_fibers[i]->state != F_DONE) all_done = false;
    if (all_done) finish("ok", "");
    ++g_step;
    schedule(K_THR_EXIT);
    abort();
}

static Fiber* make_fiber(size_t stack_bytes, bool scen, const char* name) {
    if (g_nfib >= MAX_FIBERS) fail("tool:too-many-fibers", "more than %d fibers", MAX_FIBERS);
    if (stack_bytes < (256u << 10)) stack_bytes = 256u << 10;
    stack_bytes = (stack_bytes + 4095) & ~size_t(4095);
    size_t total = stack_bytes + 4096;
    char* m = (char*)::mmap(nullptr, total, PROT_READ | PROT_WRITE, MAP_PRIVATE | MAP_ANONYMOUS | MAP_NORESERVE, -1, 0);
    if (m == MAP_FAILED) fail("tool:stack-mmap", "cannot map fiber stack");
    ::mprotect(m, 4096, PROT_NONE);
    Fiber* f = (Fiber*)calloc(1, sizeof(Fiber));
    f->id = g_nfib; f->state = F_RUNNABLE; f->scenario = scen; f->name = name;
    f->stack_lo = m + 4096; f->stack_size = stack_bytes;
    f->cur_stack_bottom = f->stack_lo; f->cur_stack_size = stack_bytes;
    f->last_run_step = g_step;
    f->prio = 1000 + (int64_t)(g_replay ? 0 : g_rng_sched.below(1000000));
    // initial frame for sim_ctx_switch: [mxcsr|fpcw][r15][r14][r13=entry][r12=arg][rbx][rbp][ret=tramp]
    uintptr_t top = (((uintptr_t)(f->stack_lo + stack_bytes)) & ~uintptr_t(15)) - 64;
    uint64_t* sp = (uint64_t*)top;           // rsp == top (16-aligned) when the trampoline starts
    *--sp = (uint64_t)&sim_ctx_tramp;        // ret target
    *--sp = 0;                               // rbp
    *--sp = 0;                               // rbx
    *--sp = (uint64_t)f;                     // r12
    *--sp = (uint64_t)&fiber_entry;          // r13
    *--sp = 0;                               // r14
    *--sp = 0;                               // r15
    uint32_t mxcsr = 0x1f80; uint16_t fpcw = 0x037f;
    uint64_t ctl = (uint64_t)mxcsr | ((uint64_t)fpcw << 32);
    *--sp = ctl;
    f->sp = sp;
    g_fibers[g_nfib++] = f;
    return f;
}

int spawn(std::function<void()> fn, const char* name, size_t stack_bytes) {
    if (!g_active) { fprintf(stderr, "sim::spawn outside a run\n"); abort(); }
    point(K_THR_CREATE, nullptr);
    Fiber* f = make_fiber(stack_bytes ? stack_bytes : (1u << 20), true, name);
    f->fn = new std::function<void()>(std::move(fn));
    changed();
    return f->id;
}
void join(int fid) {
    Fiber* t = g_fibers[fid];
    point(K_THR_JOIN, nullptr);
    while (t->state != F_DONE) {
        g_cur->state = F_BLOCKED; g_cur->bkind = B_JOIN; g_cur->bkey = t;
        block_here();
    }
}
int self() { return g_cur ? g_cur->id : -1; }
bool fiber_done(int fid) { return fid >= 0 && fid < g_nfib && g_fibers[fid]->state == F_DONE; }
bool is_scenario_fiber(int fid) { return fid >= 0 && fid < g_nfib && g_fibers[fid]->scenario; }
uint64_t step() { return g_step; }
uint64_t now_ns() { return g_now; }
int nfibers() { return g_nfib; }
uint64_t mmap_calls() { return g_mmap_calls; }

void event::wait() {
    point(K_USER, this);
    while (!flag) {
        g_cur->state = F_BLOCKED; g_cur->bkind = B_EVENT; g_cur->bkey = this;
        block_here();
    }
}
void event::signal() {
    point(K_USER, this);
    flag = true; changed();
    for (int i = 0; i < g_nfib; ++i) {
        Fiber* o = g_fibers[i];
        if (o->state == F_BLOCKED && o->bkind == B_EVENT && o->bkey == this) wake(o);
    }
}
void wait_quiescent() {
    point(K_USER, nullptr);
    g_cur->state = F_BLOCKED; g_cur->bkind = B_QUIESCE; g_cur->bkey = nullptr;
    block_here();
}
int blocked_scenario_fibers() {
    int n = 0;
    for (int i = 0; i < g_nfib; ++i) {
        Fiber* o = g_fibers[i];
        if (o != g_cur && o->scenario && o->state == F_BLOCKED) ++n;
    }
    return n;
}

// ------------------------------------------------------------------------------------ scheduler
static void describe_blocked(char* buf, size_t n) {
    size_t pos = 0;
    if (g_tag[0]) pos += snprintf(buf, n, "[%s] ", g_tag);
    for (int i = 0; i < g_nfib && pos + 80 < n; ++i) {
        Fiber* f = g_fibers[i];
        static const char* const bk[] = {"-", "futex", "sem", "join", "event", "sleep", "quiesce"};
        pos += snprintf(buf + pos, n - pos, "f%d(%s%s):%s ", f->id, f->name, f->scenario ? "" : ",worker",
                        f->state == F_DONE ? "done" : f->state == F_RUNNABLE ? "runnable" : bk[f->bkind]);
        if (f->state == F_BLOCKED && f->bkind == B_SLEEP && pos + 60 < n)
            pos += snprintf(buf + pos, n - pos, "(until t=%llu ns, now %llu) ", (unsigned long long)f->wake_ns, (unsigned long long)g_now);
    }
}

static uint64_t g_consec = 0;                       // consecutive points of the current fiber
static uint64_t g_mono_base = 1500;                 // per run: how long one fiber may keep the processor while others are runnable
static Fiber* pick_default(int kind, Fiber** run, int nrun) {
    Fiber* cur = g_cur;
    bool cur_ok = cur && cur->state == F_RUNNABLE;
    if (cur_ok && kind != K_YIELD && kind != K_PAUSE && !(nrun > 1 && g_consec > 4000)) return cur;   // (nobody keeps the processor for ever)
    // cyclic successor of cur among runnable
    int cid = cur ? cur->id : -1;
    for (int i = 0; i < nrun; ++i) if (run[i]->id > cid) return run[i];
    return run[0];
}

static Fiber* pick_strategy(int kind, Fiber** run, int nrun) {
    Fiber* cur = g_cur;
    bool cur_ok = cur && cur->state == F_RUNNABLE;
    // starvation bound (fairness).  A fiber that was starved gets a short burst of its own, and the bound is jittered:
    // with a fixed period and single steps a starved fiber that polls a lock which another fiber takes and releases in a
    // tight loop without any pause (tbbmalloc's findBlock retry) met the lock in the same phase every time: a resonance of
    // the scheduler, not of the code under test.
    if (g_force_left > 0 && g_force_fiber >= 0 && g_force_fiber < g_nfib && g_fibers[g_force_fiber]->state == F_RUNNABLE) {
        --g_force_left; return g_fibers[g_force_fiber];      // also across its pause / yield points (a back-off of 16 pauses is 16 points)
    }
    g_force_left = 0;
    // no fiber keeps the processor for thousands of points while others are runnable: on real hardware they run in
    // parallel, and a tight retry loop without any pause (tbbmalloc's findBlock) would otherwise shut out the fiber it waits for
    // The limit is a per-run knob: short (1500-3000 points) in half of the runs, long (15000-40000) in the others, so that
    // PCT / burst can still keep one thread inside an operation while another completes a long one (a bulk insert that
    // doubles a table twice); the burst granted to the other fiber grows with the limit.
    if (cur_ok && nrun > 1 && g_consec > g_mono_base + g_rng_sched.below(g_mono_base)) {
        // (a fiber that the stall / hunt strategy is holding back on purpose stays held: long delays of one thread across
        //  thousands of steps of another are exactly what those strategies are for)
        Fiber* cand[MAX_FIBERS]; int nc = 0;
        for (int i = 0; i < nrun; ++i)
            if (run[i] != cur &&
                !(g_strategy == S_STALL && run[i]->id == g_stall_victim && g_step >= g_stall_from && g_step < g_stall_to) &&
                !(g_strategy == S_HUNT && run[i]->id == g_hunt_victim && g_step < g_hunt_release_at))
                cand[nc++] = run[i];
        if (nc) {
            Fiber* o = cand[g_rng_sched.below(nc)];
            g_force_fiber = o->id; g_force_left = g_mono_base > 5000 ? 100 + (int)g_rng_sched.below(400) : 10 + (int)g_rng_sched.below(60);
            return o;
        }
    }
    {
        uint64_t bound = 2000ull * (uint64_t)(nrun + 1) + g_rng_sched.below(1009);
        Fiber* starving = nullptr;
        for (int i = 0; i < nrun; ++i)
            if (run[i] != cur && g_step - run[i]->last_run_step > bound &&
                (!starving || run[i]->last_run_step < starving->last_run_step) &&
                !(g_strategy == S_STALL && run[i]->id == g_stall_victim && g_step >= g_stall_from && g_step < g_stall_to) &&
                !(g_strategy == S_HUNT && run[i]->id == g_hunt_victim && g_step < g_hunt_release_at))
                starving = run[i];
        if (starving) { g_force_fiber = starving->id; g_force_left = 3 + (int)g_rng_sched.below(40); return starving; }
    }
    bool spin = (kind == K_YIELD || kind == K_PAUSE);
    switch (g_strategy) {
    case S_RW:
        if (spin && nrun > 1 && cur_ok) { // prefer others when spinning
            if (g_rng_sched.chance(0.75)) { Fiber* f; do f = run[g_rng_sched.below(nrun)]; while (f == cur); return f; }
        }
        return run[g_rng_sched.below(nrun)];
    case S_STALL:
    case S_HUNT:
    case S_BURST: {
        Fiber* cand[MAX_FIBERS]; int nc = 0;
        if (g_strategy == S_HUNT && g_hunt_victim >= 0 && g_step >= g_hunt_release_at) g_hunt_victim = -1;
        for (int i = 0; i < nrun; ++i) {
            if (g_strategy == S_STALL && run[i]->id == g_stall_victim && g_step >= g_stall_from && g_step < g_stall_to) continue;
            if (g_strategy == S_HUNT && run[i]->id == g_hunt_victim) continue;
            cand[nc++] = run[i];
        }
        if (nc == 0) { for (int i = 0; i < nrun; ++i) cand[nc++] = run[i]; }
        bool cur_in = false; for (int i = 0; i < nc; ++i) if (cand[i] == cur) cur_in = true;
        double stay = spin ? 0.3 : g_stay_p;
        if (cur_in && g_rng_sched.chance(stay)) return cur;
        return cand[g_rng_sched.below(nc)];
    }
    case S_PCT: {
        for (int i = 0; i < g_pct_nchange; ++i)
            if (g_pct_change[i] == g_step && cur) cur->prio = g_pct_low--;
        if (spin && cur) { cur->prio = g_pct_low--; }
        Fiber* best = run[0];
        for (int i = 1; i < nrun; ++i) if (run[i]->prio > best->prio) best = run[i];
        return best;
    }
    }
    return run[0];
}

static void idle_or_deadlock() {
    // nothing runnable: timed sleepers first, then a quiescence waiter, else deadlock
    Fiber* sl = nullptr;
    for (int i = 0; i < g_nfib; ++i) {
        Fiber* f = g_fibers[i];
        if (f->state == F_BLOCKED && f->bkind == B_SLEEP && (!sl || f->wake_ns < sl->wake_ns)) sl = f;
    }
    if (sl) { if (sl->wake_ns > g_now) g_now = sl->wake_ns; wake(sl); return; }
    for (int i = 0; i < g_nfib; ++i) {
        Fiber* f = g_fibers[i];
        if (f->state == F_BLOCKED && f->bkind == B_QUIESCE) { wake(f); return; }
    }
    char buf[1500];
    describe_blocked(buf, sizeof buf);
    fail("deadlock", "no runnable fiber at step %llu: %s", (unsigned long long)g_step, buf);
}

static void schedule(int kind) {
    for (;;) {
        Fiber* run[MAX_FIBERS]; int nrun = 0;
        for (int i = 0; i < g_nfib; ++i) {
            Fiber* f = g_fibers[i];
            // a sleeper wakes when the simulated clock reaches its time, and in any case after 20 000 schedule points: the clock
            // then jumps (spinning fibers that only load and store advance it by almost nothing, and a thread that spins
            // on something the sleeper holds would otherwise never let its 1 ms pass)
            if (f->state == F_BLOCKED && f->bkind == B_SLEEP && (f->wake_ns <= g_now || g_step - f->sleep_step > 20000)) {
                if (f->wake_ns > g_now) g_now = f->wake_ns;
                wake(f);
            }
            if (f->state == F_RUNNABLE) run[nrun++] = f;
        }
        if (nrun == 0) { idle_or_deadlock(); continue; }
        Fiber* cur = g_cur;
        Fiber* dflt = pick_default(kind, run, nrun);
        Fiber* next = dflt;
        if (g_replay) {
            uint32_t v;
            if (forced(D_SWITCH, g_step, v) && v < (uint32_t)g_nfib && g_fibers[v]->state == F_RUNNABLE) next = g_fibers[v];
        } else {
            next = nrun == 1 ? run[0] : pick_strategy(kind, run, nrun);
        }
        if (next != dflt) log_dec(g_step, D_SWITCH, (uint32_t)next->id);
        if (next == cur) ++g_consec; else g_consec = 0;
        if (next != cur) {
            if (cur && cur->state == F_RUNNABLE && kind != K_YIELD && kind != K_PAUSE) { ++g_preempts; hash_mix(g_sig, (g_step << 8) ^ next->id); }
            else hash_mix(g_sig, 0x5157 + next->id);
            if (g_trace) tr("[sim] %llu switch f%d -> f%d\n", (unsigned long long)g_step, cur ? cur->id : -1, next->id);
            switch_to(next);
        }
        return;
    }
}

static void block_here() {
    if (g_cur->noblock && (g_cur->bkind == B_FUTEX || g_cur->bkind == B_SEM))
        fail("oracle:try-blocked", "fiber %d blocked in a futex/semaphore wait inside a non-blocking (try_*) call", g_cur->id);
    ++g_step; schedule(K_BLOCK);
}
static const char* g_watch_lo = nullptr; static const char* g_watch_hi = nullptr;
static void (*g_watch_fn)(int, const void*) = nullptr;
void set_watch(const void* lo, const void* hi, void (*fn)(int, const void*)) { g_watch_lo = (const char*)lo; g_watch_hi = (const char*)hi; g_watch_fn = fn; }
static std::function<void(int, int, int, int, const int*, const int*, const int*, const int*)>* g_allot_fn = nullptr;
void set_allotment_observer(std::function<void(int, int, int, int, const int*, const int*, const int*, const int*)> fn) {
    if (!g_allot_fn) g_allot_fn = new std::function<void(int, int, int, int, const int*, const int*, const int*, const int*)>();
    *g_allot_fn = std::move(fn);
}
uint64_t my_spin_points() { return g_cur ? g_cur->spin_points : 0; }
void set_noblock(bool on) { if (g_cur) g_cur->noblock = on; }

void point_slow(int kind, const void* addr) {
    if (g_cur && addr) g_cur->last_addr = addr;
    Fiber* cur = g_cur;
    if (!cur) return;
    ++g_step;
    g_now += (kCost[kind] * g_clock_scale) >> 4;
    hash_mix(g_hash, ((uint64_t)cur->id << 56) ^ ((uint64_t)kind << 48) ^ (uint64_t)(uintptr_t)addr);
    if (g_trace) tr("[sim] %llu f%d %s %p\n", (unsigned long long)g_step, cur->id, kKindName[kind], addr);
    // liveness bookkeeping
    if (g_progress != g_last_progress) { g_last_progress = g_progress; g_last_progress_step = g_step; }
    else if (g_step - g_last_progress_step > 50000ull * (uint64_t)(g_nfib + 1)) {
        char buf[1500]; describe_blocked(buf, sizeof buf);
        fail("livelock", "no state-changing step for %llu steps (all runnable fibers only read/spin): %s",
             (unsigned long long)(g_step - g_last_progress_step), buf);
    }
    // bounded liveness: under the fair scheduler no body point, harness event or thread start / exit for a third of the
    // step budget (millions of points) although threads keep changing internal state (a spinning dispatcher toggles
    // locks and flags, which the criterion above counts as progress)
    if (kind == K_USER || kind == K_THR_CREATE || kind == K_THR_EXIT) g_user_mark = g_step;
    else if (g_step - g_user_mark > g_cfg.step_budget / 3) {
        char buf[1500]; describe_blocked(buf, sizeof buf);
        fail("livelock", "no user-visible progress (no body point, harness event, thread start or exit) for %llu steps under a fair scheduler although internal state keeps changing: %s",
             (unsigned long long)(g_step - g_user_mark), buf);
    }
    if (g_step > g_cfg.step_budget) {
        char buf[1500]; describe_blocked(buf, sizeof buf);
        fail("budget", "step budget %llu exhausted: %s", (unsigned long long)g_cfg.step_budget, buf);
    }
    // TSO: the scheduler may drain one buffered store of any fiber
    if (g_tso_on) {
        for (int i = 0; i < g_nfib; ++i) {
            Fiber* f = g_fibers[i];
            if (!f->tso_n) continue;
            // a store does not stay buffered for ever: bounded delay, independent of the decision source (a replay
            // whose log has run out would otherwise never drain and report an artificial livelock)
            if (g_step - f->tso[0].born > TSO_MAX_AGE) { tso_drain_one(f); continue; }
            if (sched_choice(g_drain_n, "drain") == 1) tso_drain_one(f);
        }
    }
    if (g_strategy == S_HUNT) {
        if (g_hunt_pending == cur->id) {          // its previous point was the load of a watched word
            g_hunt_pending = -1; g_hunt_victim = cur->id; g_hunt_stale = true; g_hunt_write_seen = false; g_hunt_release_at = g_step + 400 + g_rng_sched.below(2600);
            if (g_trace) tr("[sim] %llu hunt: f%d held back after loading the watched word %p\n", (unsigned long long)g_step, cur->id, g_hunt_addr);
        } else if (kind == K_LOAD && g_nstale && g_hunt_victim < 0 && g_hunt_pending < 0 && g_stale_left > 0 && g_nfib > 1) {
            bool in = false;
            for (int i = 0; i < g_nstale; ++i) if ((const char*)addr >= g_stale[i].lo && (const char*)addr < g_stale[i].hi) in = true;
            if (in && g_rng_sched.chance(0.2)) { g_hunt_pending = cur->id; g_hunt_addr = addr; --g_stale_left; }
        }
    }
    if (kind == K_PAUSE || kind == K_YIELD) { cur->spin_points++; cur->spin_run++; }
    else if (kind == K_LOAD) { if (cur->spin_run) cur->spin_addr = addr; }
    else {
        if (g_strategy == S_HUNT && (kind == K_RMW || kind == K_STORE || kind == K_FENCE || kind == K_FUTEX_WAIT) && addr != cur->spin_addr &&   // an RMW on the polled word itself is a successful acquisition
            cur->spin_run >= 8 && cur->spin_addr && g_hunt_victim < 0 && g_hunts_left > 0 && g_rng_sched.chance(0.5)) {
            g_hunt_victim = cur->id; g_hunt_stale = false; g_hunt_write_seen = false; g_hunt_addr = cur->spin_addr; g_hunt_release_at = g_step + 3000 + g_rng_sched.below(6000); --g_hunts_left;
            if (g_trace) tr("[sim] %llu hunt: f%d held back before its sleep path, polled word %p\n", (unsigned long long)g_step, cur->id, g_hunt_addr);
        }
        cur->spin_run = 0;
    }
    if (g_hunt_victim >= 0 && cur->id != g_hunt_victim && (kind == K_STORE || kind == K_RMW) && addr == g_hunt_addr) {
        // (a held-back sleeper is released within a few points; a fiber carrying a stale version word sometimes much later:
        //  what makes its value harmful may be a third fiber acting on the new version)
        uint64_t at = g_step + (g_hunt_stale && g_rng_sched.chance(0.6) ? g_rng_sched.below(800) : g_rng_sched.below(10));
        if (!g_hunt_write_seen && at < g_hunt_release_at) g_hunt_release_at = at;      // the first write decides; later writes do not shorten the hold
        g_hunt_write_seen = true;
    }
    if (kind == K_USER) {   // two different fibers interleave inside harness bodies: the run is inside the operation window
        static int last_user_fiber = -1;
        if (last_user_fiber >= 0 && last_user_fiber != cur->id && g_fibers[last_user_fiber]->state != F_DONE) g_window = 1;
        last_user_fiber = cur->id;
    }
    schedule(kind);
    if (g_watch_fn && (const char*)addr >= g_watch_lo && (const char*)addr < g_watch_hi) g_watch_fn(kind, addr);
}

// Frame-pointer walk of every fiber (trace mode only): addresses are resolved offline with addr2line
// (no ASLR, so they are stable).  Debugging aid for deadlock / livelock verdicts.
static void dump_backtraces() {
    for (int i = 0; i < g_nfib; ++i) {
        Fiber* f = g_fibers[i];
        if (f->state == F_DONE) continue;
        uintptr_t* frame;
        if (f == g_cur) frame = (uintptr_t*)__builtin_frame_address(0);
        else { uintptr_t* sp = (uintptr_t*)f->sp; tr("[sim] bt f%d: %p", f->id, (void*)sp[7]); frame = (uintptr_t*)sp[6]; }
        if (f == g_cur) tr("[sim] bt f%d:", f->id);
        for (int depth = 0; depth < 40 && frame; ++depth) {
            uintptr_t fa = (uintptr_t)frame;
            // the frame must lie on some mapped stack: accept the fiber's own stack or a TBB coroutine stack
            bool own = fa >= (uintptr_t)f->stack_lo && fa + 16 <= (uintptr_t)f->stack_lo + f->stack_size;
            bool co = fa >= (uintptr_t)f->cur_stack_bottom && fa + 16 <= (uintptr_t)f->cur_stack_bottom + f->cur_stack_size;
            if (!own && !co) break;
            uintptr_t ret = frame[1];
            if (!ret) break;
            tr(" %p", (void*)ret);
            uintptr_t* next = (uintptr_t*)frame[0];
            if (next <= frame) break;
            frame = next;
        }
        tr("\n");
    }
}

// ------------------------------------------------------------------------------------ child_run
static void scenario_main_fn() { g_scen[g_job->scenario].fn(); }

void child_run(const Job& job, const uint64_t* tape, const Dec* dec, Shared* out) {
    g_job = &job; g_in_tape = tape; g_in_dec = dec; g_out = out;
    memset((void*)out, 0, offsetof(Shared, tape));
    out->dec_len = 0; out->dec_overflow = 0;
    g_trace = (job.flags & JF_TRACE) != 0;
    {   // always mapped, so that tracing does not shift later mappings (addresses are part of the event hash)
        g_trbuf = (char*)::mmap(nullptr, TR_CAP, PROT_READ | PROT_WRITE, MAP_PRIVATE | MAP_ANONYMOUS | MAP_NORESERVE, -1, 0);
        if (g_trbuf == MAP_FAILED) g_trbuf = nullptr;
    }
    g_replay = (job.flags & JF_HAS_DEC) != 0;
    uint64_t s = job.seed;
    g_rng_prog.seed(splitmix(s) ^ 0x1111);
    uint64_t ss = job.sched_seed ? job.sched_seed : job.seed;
    uint64_t s2 = ss * 0x9e3779b97f4a7c15ull + 7;
    g_rng_sched.seed(splitmix(s2) ^ 0x2222);
    g_rng_clock.seed(splitmix(s2) ^ 0x3333);
    const ScenarioDef& sd = g_scen[job.scenario];
    g_cfg = Config();
    g_cfg.step_budget = sd.step_budget;
    // per-run scheduler configuration (swarm)
    g_faults_on = !(job.flags & JF_NO_FAULTS) && g_rng_sched.chance(0.6);
    g_strategy = (int)g_rng_sched.below(S_NSTRAT);
    static const double stays[] = {0.5, 0.8, 0.95, 0.99};
    g_stay_p = stays[g_rng_sched.below(4)];
    g_clock_scale = 8 + g_rng_sched.below(24);
    g_time_salt = g_rng_clock.below(1000000);
    uint32_t est = sd.est_steps ? sd.est_steps : 2000;
    g_pct_nchange = (int)g_rng_sched.below(5);
    for (int i = 0; i < g_pct_nchange; ++i) g_pct_change[i] = 1 + g_rng_sched.below(est);
    g_stall_victim = (int)g_rng_sched.below(4);
    g_stall_from = g_rng_sched.below(est);
    g_stall_to = g_stall_from + est / 2 + g_rng_sched.below(est * 2);
    g_hunt_victim = -1; g_hunt_pending = -1; g_nstale = 0; g_hunts_left = 1 + (int)g_rng_sched.below(3); g_stale_left = 3 + (int)g_rng_sched.below(6);
    { static const uint32_t dn[] = {4, 4, 16, 64}; g_drain_n = dn[g_rng_sched.below(4)]; }
    g_mono_base = g_rng_sched.below(2) ? 1500 : 15000 + g_rng_sched.below(5001);
    g_cfg.strategy = g_strategy;
    if (g_replay) g_strategy = -1;
    alarm((job.flags & JF_SHORT_ALARM) ? 12 : job.tier ? 120 : 60);
    signal(SIGABRT, on_fatal_signal);
    g_active = 1;
    Fiber* f0 = make_fiber(2u << 20, true, "main");
    f0->cfn = nullptr;
    f0->fn = new std::function<void()>(scenario_main_fn);
    switch_to(f0);
    finish("tool:returned-to-main", "scheduler returned to the main context");
}

}  // namespace sim

// =================================================================================== C shims
using namespace sim;

extern "C" {

pthread_t sim_pthread_self(void) {
    if (!g_active || !g_cur) return ::pthread_self();
    return (pthread_t)(uintptr_t)(0x7f5100000000ull + ((uint64_t)g_cur->id + 1) * 0x1000);
}
static Fiber* fiber_of(pthread_t t) {
    uint64_t v = (uint64_t)t - 0x7f5100000000ull;
    int id = (int)(v / 0x1000) - 1;
    return (id >= 0 && id < g_nfib) ? g_fibers[id] : nullptr;
}

int sim_pthread_create(pthread_t* out, const pthread_attr_t* attr, void* (*fn)(void*), void* arg) {
    if (!g_active) { fprintf(stderr, "sim: pthread_create outside a simulated run\n"); abort(); }
    point(K_THR_CREATE, nullptr);
    if (fault("thrfail", 0.15)) return EAGAIN;
    size_t ss = 0;
    if (attr) pthread_attr_getstacksize(attr, &ss);
    Fiber* f = make_fiber(ss ? ss : (1u << 20), false, "tbb-thread");
    f->cfn = fn; f->carg = arg;
    *out = (pthread_t)(uintptr_t)(0x7f5100000000ull + ((uint64_t)f->id + 1) * 0x1000);
    changed();
    return 0;
}
int sim_pthread_join(pthread_t t, void** ret) {
    if (!g_active) return 0;
    Fiber* f = fiber_of(t);
    if (!f) return ESRCH;
    if (ret) *ret = nullptr;
    sim::join(f->id);
    return 0;
}
int sim_pthread_detach(pthread_t t) {
    if (!g_active) return 0;
    Fiber* f = fiber_of(t);
    if (f) f->detached = true;
    return 0;
}
int sim_pthread_getattr_np(pthread_t t, pthread_attr_t* attr) {
    if (!g_active || !g_cur) return ::pthread_getattr_np(t, attr);
    Fiber* f = fiber_of(t);
    if (!f) return ESRCH;
    pthread_attr_init(attr);
    pthread_attr_setstack(attr, f->stack_lo, f->stack_size);
    return 0;
}
int sim_pthread_key_create(pthread_key_t* key, void (*dtor)(void*)) {
    for (int k = 1; k < MAX_KEYS; ++k) {
        if (!g_keys[k].used) {
            g_keys[k].used = true; g_keys[k].dtor = dtor; *key = (pthread_key_t)k;
            g_main_tls[k] = nullptr;
            for (int i = 0; i < g_nfib; ++i) g_fibers[i]->tls[k] = nullptr;
            return 0;
        }
    }
    return EAGAIN;
}
int sim_pthread_key_delete(pthread_key_t key) {
    if (key >= MAX_KEYS || !g_keys[key].used) return EINVAL;
    g_keys[key].used = false; g_keys[key].dtor = nullptr;
    return 0;
}
int sim_pthread_setspecific(pthread_key_t key, const void* v) {
    if (key >= MAX_KEYS || !g_keys[key].used) return EINVAL;
    if (g_active && g_cur) g_cur->tls[key] = (void*)v; else g_main_tls[key] = (void*)v;
    return 0;
}
void* sim_pthread_getspecific(pthread_key_t key) {
    if (key >= MAX_KEYS || !g_keys[key].used) return nullptr;
    return (g_active && g_cur) ? g_cur->tls[key] : g_main_tls[key];
}

static long futex_wait(uint32_t* addr, uint32_t val) {
    point(K_FUTEX_WAIT, addr);
    tso_drain_self();
    if (*addr != val) { errno = EAGAIN; return -1; }
    if (fault("spur", 0.1)) { if (sched_choice(2, "spur-kind")) { errno = EINTR; return -1; } return 0; }
    g_cur->state = F_BLOCKED; g_cur->bkind = B_FUTEX; g_cur->bkey = addr;
    block_here();
    return 0;
}
static long futex_wake(uint32_t* addr, int n) {
    point(K_FUTEX_WAKE, addr);
    tso_drain_self();
    int woken = 0;
    while (woken < n) {
        Fiber* w[MAX_FIBERS]; int nw = 0;
        for (int i = 0; i < g_nfib; ++i) {
            Fiber* f = g_fibers[i];
            if (f->state == F_BLOCKED && f->bkind == B_FUTEX && f->bkey == addr) w[nw++] = f;
        }
        if (!nw) break;
        Fiber* f = w[nw > 1 ? sched_choice((uint32_t)nw, "wakeord") : 0];
        wake(f);
        ++woken;
    }
    return woken;
}

long sim_syscall(long no, ...) {
    va_list ap; va_start(ap, no);
    long a[6];
    for (int i = 0; i < 6; ++i) a[i] = va_arg(ap, long);
    va_end(ap);
    if (no == SYS_futex && g_active && g_cur) {
        int op = (int)a[1] & ~(FUTEX_PRIVATE_FLAG | FUTEX_CLOCK_REALTIME);
        if (op == FUTEX_WAIT) return futex_wait((uint32_t*)a[0], (uint32_t)a[2]);
        if (op == FUTEX_WAKE) return futex_wake((uint32_t*)a[0], (int)a[2]);
        fail("tool:futex-op", "unsupported futex op %d", op);
    }
    return ::syscall(no, a[0], a[1], a[2], a[3], a[4], a[5]);
}

// semaphores: the count lives in the first int of sem_t
int sim_sem_init(sem_t* s, int, unsigned v) { memset(s, 0, sizeof *s); *(unsigned*)s = v; return 0; }
int sim_sem_destroy(sem_t*) { return 0; }
int sim_sem_wait(sem_t* s) {
    if (!g_active || !g_cur) { unsigned& c = *(unsigned*)s; if (c) { --c; return 0; } fprintf(stderr, "sim: sem_wait would block outside run\n"); abort(); }
    point(K_SEM, s);
    unsigned& c = *(unsigned*)s;
    while (c == 0) {
        g_cur->state = F_BLOCKED; g_cur->bkind = B_SEM; g_cur->bkey = s;
        block_here();
    }
    --c; changed();
    return 0;
}
int sim_sem_post(sem_t* s) {
    unsigned& c = *(unsigned*)s;
    if (!g_active || !g_cur) { ++c; return 0; }
    point(K_SEM, s);
    ++c; changed();
    Fiber* w[MAX_FIBERS]; int nw = 0;
    for (int i = 0; i < g_nfib; ++i) {
        Fiber* f = g_fibers[i];
        if (f->state == F_BLOCKED && f->bkind == B_SEM && f->bkey == s) w[nw++] = f;
    }
    if (nw) wake(w[nw > 1 ? sched_choice((uint32_t)nw, "wakeord") : 0]);
    return 0;
}

int sim_sched_yield(void) {
    if (!g_active) return ::sched_yield();
    point(K_YIELD, nullptr);
    return 0;
}
void sim_mm_pause(void) {
    if (!g_active) { __builtin_ia32_pause(); return; }
    point(K_PAUSE, nullptr);
}
int sim_nanosleep(const struct timespec* ts, struct timespec* rem) {
    if (!g_active || !g_cur) return ::nanosleep(ts, rem);
    point(K_SLEEP, nullptr);
    uint64_t ns = (uint64_t)ts->tv_sec * 1000000000ull + (uint64_t)ts->tv_nsec;
    g_cur->wake_ns = g_now + ns; g_cur->sleep_step = g_step;
    g_cur->state = F_BLOCKED; g_cur->bkind = B_SLEEP; g_cur->bkey = nullptr;
    block_here();
    return 0;
}
int sim_sched_getaffinity(pid_t pid, size_t sz, cpu_set_t* mask) {
    if (!g_active) return ::sched_getaffinity(pid, sz, mask);
    memset(mask, 0, sz);
    for (int i = 0; i < g_cfg.P && (size_t)i < sz * 8; ++i) CPU_SET_S(i, sz, mask);
    return 0;
}
long sim_sysconf(int name) {
    if (g_active && name == _SC_NPROCESSORS_ONLN) return g_cfg.P;
    return ::sysconf(name);
}
time_t sim_time(time_t* t) {
    struct timespec ts;
    time_t v;
    if (g_active) v = (time_t)(1700000000 + sim::g_time_salt + sim::g_now / 1000000000ull);
    else { clock_gettime(CLOCK_REALTIME, &ts); v = ts.tv_sec; }
    if (t) *t = v;
    return v;
}
// The executable's own definition of time() takes precedence over libc's: the skip-list level generator
// seeds its engines with time(nullptr); under the simulator the value is a function of the seed.
time_t time(time_t* t) __THROW { return sim_time(t); }
uint64_t sim_machine_time_stamp(void) {
    if (!g_active) return __builtin_ia32_rdtsc();
    point(K_CLOCK, nullptr);
    if (fault("clock", 0.02)) g_now += 1000000 + g_rng_clock.below(9000000);
    return g_now * 3;  // 3 GHz
}
void sim_tso_region(const void* p, size_t n, int on) { if (!g_active) return; if (on) sim::tso_register(p, n); else sim::tso_unregister(p, n); }
void sim_allotment(int soft, int mand, int total, int n, const int* l, const int* mn, const int* mx, const int* al) { if (g_active && sim::g_allot_fn && *sim::g_allot_fn) (*sim::g_allot_fn)(soft, mand, total, n, l, mn, mx, al); }
void sim_probe(const char* name) { if (g_active) sim::probe(name); }
unsigned sim_random_salt(void) { return g_active ? (unsigned)(sim::g_time_salt * 2654435761u) : 0u; }
int sim_unusual(const char* site, int per_mille) { return (g_active && g_cur) ? (int)sim::fault(site, per_mille / 1000.0) : 0; }
int sim_spin_knob(int dflt) { return (g_active && g_cfg.spin_knob >= 0) ? g_cfg.spin_knob : dflt; }

void* sim_mmap(void* addr, size_t len, int prot, int flags, int fd, off_t off) {
    if (g_active && g_cur) {
        point(K_MMAP, nullptr);
        uint64_t k = ++g_mmap_calls;
        if (g_cfg.oom_size && len == g_cfg.oom_size && g_cfg.oom_size_nth > 0 && --g_cfg.oom_size_nth == 0) {
            g_cfg.oom_at = k; g_cfg.oom_until = k + g_cfg.oom_size_len;
            sim::probe("oom-aimed-at-request-size");
        }
        if (g_cfg.oom_at && (k == g_cfg.oom_at || (k > g_cfg.oom_at && k <= g_cfg.oom_until))) {
            fault_fired("oom");
            errno = ENOMEM;
            return MAP_FAILED;
        }
    }
    return ::mmap(addr, len, prot, flags, fd, off);
}
int sim_munmap(void* addr, size_t len) {
    if (g_active && g_cur) point(K_MMAP, nullptr);
    return ::munmap(addr, len);
}
void* sim_mremap(void* old, size_t olen, size_t nlen, int flags, ...) {
    if (g_active && g_cur) {
        point(K_MMAP, nullptr);
        uint64_t k = ++g_mmap_calls;
        if (g_cfg.oom_at && (k == g_cfg.oom_at || (k > g_cfg.oom_at && k <= g_cfg.oom_until))) {
            fault_fired("oom");
            errno = ENOMEM;
            return MAP_FAILED;
        }
    }
    return ::mremap(old, olen, nlen, flags);
}

// TBB's own coroutines: keep ASan informed about the stack we continue on.
// First activation of a coroutine: the entry function is wrapped so that the pending fiber switch is finished.
static void (*g_co_entry)() = nullptr;
static void co_tramp(unsigned hi, unsigned lo) {
#if SIM_ASAN
    __sanitizer_finish_switch_fiber(nullptr, nullptr, nullptr);
#endif
    reinterpret_cast<void (*)(unsigned, unsigned)>(g_co_entry)(hi, lo);
}
void sim_makecontext(ucontext_t* ucp, void (*fn)(), int argc, ...) {
    va_list ap; va_start(ap, argc);
    unsigned a0 = argc > 0 ? va_arg(ap, unsigned) : 0, a1 = argc > 1 ? va_arg(ap, unsigned) : 0;
    va_end(ap);
    if (argc != 2) { fprintf(stderr, "sim_makecontext: unsupported argc %d\n", argc); abort(); }
    g_co_entry = fn;
    ::makecontext(ucp, reinterpret_cast<void (*)()>(co_tramp), 2, a0, a1);
}
struct CtxStack { const ucontext_t* uc; const void* bottom; size_t size; };
static CtxStack g_ctxs[512]; static int g_nctx = 0;
int sim_swapcontext(ucontext_t* from, const ucontext_t* to) {
    if (!g_active || !g_cur) return ::swapcontext(from, to);
    Fiber* f = g_cur;
    // remember which stack `from` lives on
    int slot = -1;
    for (int i = 0; i < g_nctx; ++i) if (g_ctxs[i].uc == from) { slot = i; break; }
    if (slot < 0 && g_nctx < 512) slot = g_nctx++;
    if (slot >= 0) g_ctxs[slot] = {from, f->cur_stack_bottom, f->cur_stack_size};
    const void* nb = nullptr; size_t ns = 0;
    for (int i = 0; i < g_nctx; ++i) if (g_ctxs[i].uc == to) { nb = g_ctxs[i].bottom; ns = g_ctxs[i].size; break; }
    if (!nb) { nb = to->uc_stack.ss_sp; ns = to->uc_stack.ss_size; }
    f->cur_stack_bottom = nb; f->cur_stack_size = ns;
#if SIM_ASAN
    void* fake = nullptr;
    __sanitizer_start_switch_fiber(&fake, nb, ns);
#endif
    int r = ::swapcontext(from, to);
    // resumed (possibly on another fiber): g_cur is whoever resumed us
#if SIM_ASAN
    __sanitizer_finish_switch_fiber(fake, nullptr, nullptr);
#endif
    return r;
}

}  // extern "C"

std::chrono::sim_steady_clock::time_point std::chrono::sim_steady_clock::now() noexcept {
    if (!sim::g_active) {
        auto t = std::chrono::steady_clock::now().time_since_epoch();
        return time_point(std::chrono::duration_cast<duration>(t));
    }
    sim::point(K_CLOCK, nullptr);
    if (sim::fault("clock", 0.02)) sim::g_now += 1000000 + sim::g_rng_clock.below(9000000);
    return time_point(duration((int64_t)sim::g_now));
}
