// Internal interface between the simulator runtime (sim_rt.cpp) and the driver (driver.cpp).
#pragma once
#include <cstdint>
#include <cstddef>

namespace sim {

enum JobFlags : uint32_t {
    JF_HAS_TAPE = 1,      // use the supplied tape instead of the program PRNG stream
    JF_HAS_DEC = 2,       // forced decisions (replay): default policy everywhere else
    JF_TRACE = 4,         // print every schedule point to stderr
    JF_NO_FAULTS = 8,     // scheduler-level faults disabled
    JF_FAST = 16,         // informational: flavour
    JF_SHORT_ALARM = 256, // minimisation runs: a run without schedule points (native endless loop) is cut after 12 s of wall time
};

constexpr uint32_t MAX_TAPE = 1u << 16;
constexpr uint32_t MAX_DEC = 1u << 21;

struct Dec {
    uint64_t key;      // schedule step number (D_SWITCH) or choice number (D_CHOICE)
    uint32_t kind;     // 0 = switch to fiber <val>, 1 = choice value <val>
    uint32_t val;
};
enum { D_SWITCH = 0, D_CHOICE = 1 };

struct Job {
    uint64_t magic;
    uint64_t seed;
    uint64_t sched_seed;   // 0 = derive from seed
    uint32_t flags;
    uint32_t scenario;
    int32_t tier;          // 0 quick, 1 thorough
    uint32_t tape_len;
    uint32_t dec_len;
    uint32_t pad;
};
constexpr uint64_t JOB_MAGIC = 0x53494d4a4f423031ull;

struct NamedCount { char name[40]; uint32_t n; };

// Lives in a MAP_SHARED region created by the zygote; filled by the child, read by the zygote.
struct Shared {
    volatile uint32_t done;
    char cls[64];
    char msg[2048];
    char tag[160];
    uint64_t steps, switches, preempts, sim_ns, hash, sig_hash, choices;
    uint32_t nfibers, window, strategy, tso, faults_on, P;
    uint32_t n_faults; NamedCount faults[32];
    uint32_t n_probes; NamedCount probes[128];
    char sample[8192];
    uint32_t tape_len; uint32_t tape_overflow; uint64_t tape[MAX_TAPE];
    uint32_t dec_len; uint32_t dec_overflow; Dec dec[MAX_DEC];
};

struct ScenarioDef {
    const char* name;          // e.g. "c08"
    void (*fn)();              // runs on fiber 0 inside the simulation
    const char* property;      // "C08"
    uint64_t step_budget;      // per-run cap (inconclusive when hit)
    uint32_t est_steps;        // typical run length (PCT change-point placement)
};
void register_scenario(const ScenarioDef& d);
int n_scenarios();
const ScenarioDef& scenario(int i);
int find_scenario(const char* name);

struct ScenarioReg { ScenarioReg(const ScenarioDef& d) { register_scenario(d); } };
#define SIM_SCENARIO(ident, nm, prop, budget, est) \
    static void ident(); \
    static ::sim::ScenarioReg ident##_reg({nm, ident, prop, budget, est}); \
    static void ident()

// Executes one job in the calling (forked) process; never returns.
[[noreturn]] void child_run(const Job& job, const uint64_t* tape, const Dec* dec, Shared* out);

}  // namespace sim
