// Force-included (-include) into every oneTBB translation unit and every scenario.
// Step 1: pull in every standard / POSIX header the code base uses, so that none of them is
//         parsed after the renaming macros below are active.
// Step 2: declare the simulator shims.
// Step 3: rename, at token level, the names through which oneTBB reaches nondeterminism.
// No source line of /repo is changed by this (DESIGN.md section 4).
#pragma once
#ifdef __cplusplus
#include <bits/stdc++.h>
#include <pthread.h>
#include <semaphore.h>
#include <sched.h>
#include <unistd.h>
#include <time.h>
#include <errno.h>
#include <dlfcn.h>
#include <ucontext.h>
#include <sys/syscall.h>
#include <sys/mman.h>
#include <sys/time.h>
#include <sys/resource.h>
#include <sys/stat.h>
#include <sys/types.h>
#include <linux/futex.h>
#include <immintrin.h>
#include <malloc.h>
#include <fcntl.h>
#include <limits.h>
#include <stdint.h>
#include <stdio.h>
#include <stdlib.h>
#include <string.h>

#include "sim.h"
#include "sim_atomic.h"

extern "C" {
int   sim_pthread_create(pthread_t*, const pthread_attr_t*, void* (*)(void*), void*);
int   sim_pthread_join(pthread_t, void**);
int   sim_pthread_detach(pthread_t);
pthread_t sim_pthread_self(void);
int   sim_pthread_getattr_np(pthread_t, pthread_attr_t*);
int   sim_pthread_key_create(pthread_key_t*, void (*)(void*));
int   sim_pthread_key_delete(pthread_key_t);
int   sim_pthread_setspecific(pthread_key_t, const void*);
void* sim_pthread_getspecific(pthread_key_t);
long  sim_syscall(long, ...);
int   sim_sem_init(sem_t*, int, unsigned);
int   sim_sem_destroy(sem_t*);
int   sim_sem_wait(sem_t*);
int   sim_sem_post(sem_t*);
int   sim_sched_yield(void);
int   sim_nanosleep(const struct timespec*, struct timespec*);
int   sim_sched_getaffinity(pid_t, size_t, cpu_set_t*);
long  sim_sysconf(int);
void* sim_mmap(void*, size_t, int, int, int, off_t);
int   sim_munmap(void*, size_t);
void* sim_mremap(void*, size_t, size_t, int, ...);
void  sim_mm_pause(void);
time_t sim_time(time_t*);
int   sim_swapcontext(ucontext_t*, const ucontext_t*);
void  sim_makecontext(ucontext_t*, void (*)(), int, ...);
uint64_t sim_machine_time_stamp(void);
int   sim_spin_knob(int dflt);
void  sim_probe(const char* name);
unsigned sim_random_salt(void);
void  sim_allotment(int, int, int, int, const int*, const int*, const int*, const int*);
void  sim_tso_region(const void* p, size_t n, int on);
}

namespace std {
namespace this_thread {
inline void sim_yield() noexcept { ::sim_sched_yield(); }
inline std::thread::id sim_get_id() noexcept { return std::thread::id((std::thread::native_handle_type)::sim_pthread_self()); }
}  // namespace this_thread
namespace chrono {
struct sim_steady_clock {
    typedef std::chrono::nanoseconds duration;
    typedef duration::rep rep;
    typedef duration::period period;
    typedef std::chrono::time_point<sim_steady_clock, duration> time_point;
    static constexpr bool is_steady = true;
    static time_point now() noexcept;
};
}  // namespace chrono
}  // namespace std

#ifndef SIM_NO_RENAME
#define atomic sim_atomic
#define atomic_flag sim_atomic_flag
#define atomic_thread_fence sim_atomic_thread_fence
#define pthread_create sim_pthread_create
#define pthread_join sim_pthread_join
#define pthread_detach sim_pthread_detach
#define pthread_self sim_pthread_self
#define pthread_getattr_np sim_pthread_getattr_np
#define pthread_key_create sim_pthread_key_create
#define pthread_key_delete sim_pthread_key_delete
#define pthread_setspecific sim_pthread_setspecific
#define pthread_getspecific sim_pthread_getspecific
#define syscall sim_syscall
#define sem_init sim_sem_init
#define sem_destroy sim_sem_destroy
#define sem_wait sim_sem_wait
#define sem_post sim_sem_post
#define sched_yield sim_sched_yield
#define yield sim_yield
#define get_id sim_get_id
#define nanosleep sim_nanosleep
#define sched_getaffinity sim_sched_getaffinity
#define sysconf sim_sysconf
#define mmap sim_mmap
#define munmap sim_munmap
#define mremap sim_mremap
#define _mm_pause sim_mm_pause
#define steady_clock sim_steady_clock
#define swapcontext sim_swapcontext
#define makecontext sim_makecontext
#endif
#endif  // __cplusplus
