// sim_atomic<T>: drop-in for std::atomic<T> whose every operation is a schedule point.
// All fibers run on one OS thread, so the operations themselves are plain memory accesses; the
// out-of-line point_slow() call is a compiler barrier.  TSO store buffering (DESIGN 3.5) is
// implemented in sim_rt.cpp through tso_store()/tso_load().
#pragma once
#include <atomic>
#include <cstring>
#include <type_traits>
#include "sim.h"

namespace sim {

extern int g_tso_on;   // nonzero when this run uses store buffers and at least one region is registered
bool tso_store(void* addr, const void* val, size_t n, int mo);  // true if buffered (memory untouched)
bool tso_load(const void* addr, void* out, size_t n);           // true if forwarded from own buffer
void tso_drain_self();                                          // drain calling fiber's buffer

template <class T>
struct atomic_storage {
    T v;
    atomic_storage() noexcept = default;
    constexpr atomic_storage(T d) noexcept : v(d) {}
    atomic_storage(const atomic_storage&) = delete;
    atomic_storage& operator=(const atomic_storage&) = delete;

    static constexpr bool is_always_lock_free = true;
    bool is_lock_free() const noexcept { return true; }
    using value_type = T;

    static bool same(const T& a, const T& b) noexcept { return std::memcmp(&a, &b, sizeof(T)) == 0; }

    T raw_load() const noexcept {
        if (__builtin_expect(g_tso_on, 0)) { T r; if (tso_load(&v, &r, sizeof(T))) return r; }
        return v;
    }
    T load(std::memory_order = std::memory_order_seq_cst) const noexcept {
        point(K_LOAD, &v);
        return raw_load();
    }
    T load(std::memory_order = std::memory_order_seq_cst) const volatile noexcept {
        return const_cast<const atomic_storage*>(this)->load();
    }
    void store(T d, std::memory_order mo = std::memory_order_seq_cst) noexcept {
        point(K_STORE, &v);
        if (__builtin_expect(g_tso_on, 0)) {
            if (mo == std::memory_order_seq_cst) tso_drain_self();
            else if (tso_store(&v, &d, sizeof(T), (int)mo)) { changed(); return; }
        }
        if (!same(v, d)) changed();
        v = d;
    }
    void store(T d, std::memory_order mo = std::memory_order_seq_cst) volatile noexcept {
        const_cast<atomic_storage*>(this)->store(d, mo);
    }
    operator T() const noexcept { return load(); }
    operator T() const volatile noexcept { return load(); }
    T operator=(T d) noexcept { store(d); return d; }
    T operator=(T d) volatile noexcept { store(d); return d; }

    void rmw_prologue() noexcept {
        point(K_RMW, &v);
        if (__builtin_expect(g_tso_on, 0)) tso_drain_self();
    }
    T exchange(T d, std::memory_order = std::memory_order_seq_cst) noexcept {
        rmw_prologue();
        T old = v;
        if (!same(old, d)) changed();
        v = d;
        return old;
    }
    bool compare_exchange_strong(T& expected, T desired, std::memory_order = std::memory_order_seq_cst,
                                 std::memory_order = std::memory_order_seq_cst) noexcept {
        rmw_prologue();
        if (same(v, expected)) {
            if (!same(v, desired)) changed();
            v = desired;
            return true;
        }
        expected = v;
        return false;
    }
    bool compare_exchange_weak(T& expected, T desired, std::memory_order a = std::memory_order_seq_cst,
                               std::memory_order b = std::memory_order_seq_cst) noexcept {
        if (g_active && fault("casweak", 0.1)) { point(K_RMW, &v); expected = raw_load(); return false; }
        return compare_exchange_strong(expected, desired, a, b);
    }
};

template <class T, class Enable = void>
struct atomic_t : atomic_storage<T> {
    using atomic_storage<T>::atomic_storage;
    using atomic_storage<T>::operator=;
    atomic_t() noexcept = default;
};

// integral (not bool)
template <class T>
struct atomic_t<T, typename std::enable_if<std::is_integral<T>::value && !std::is_same<T, bool>::value>::type>
    : atomic_storage<T> {
    using atomic_storage<T>::atomic_storage;
    using atomic_storage<T>::operator=;
    using difference_type = T;
    atomic_t() noexcept = default;
#define SIM_FETCH(name, expr)                                                              \
    T name(T d, std::memory_order = std::memory_order_seq_cst) noexcept {                  \
        this->rmw_prologue();                                                              \
        T old = this->v;                                                                   \
        T nv = (T)(expr);                                                                  \
        if (nv != old) changed();                                                          \
        this->v = nv;                                                                      \
        return old;                                                                        \
    }
    SIM_FETCH(fetch_add, old + d)
    SIM_FETCH(fetch_sub, old - d)
    SIM_FETCH(fetch_and, old & d)
    SIM_FETCH(fetch_or, old | d)
    SIM_FETCH(fetch_xor, old ^ d)
#undef SIM_FETCH
    T operator++() noexcept { return (T)(fetch_add(1) + 1); }
    T operator++(int) noexcept { return fetch_add(1); }
    T operator--() noexcept { return (T)(fetch_sub(1) - 1); }
    T operator--(int) noexcept { return fetch_sub(1); }
    T operator+=(T d) noexcept { return (T)(fetch_add(d) + d); }
    T operator-=(T d) noexcept { return (T)(fetch_sub(d) - d); }
    T operator&=(T d) noexcept { return (T)(fetch_and(d) & d); }
    T operator|=(T d) noexcept { return (T)(fetch_or(d) | d); }
    T operator^=(T d) noexcept { return (T)(fetch_xor(d) ^ d); }
};

// pointers
template <class U>
struct atomic_t<U*, void> : atomic_storage<U*> {
    using T = U*;
    using atomic_storage<U*>::atomic_storage;
    using atomic_storage<U*>::operator=;
    using difference_type = std::ptrdiff_t;
    atomic_t() noexcept = default;
    T fetch_add(std::ptrdiff_t d, std::memory_order = std::memory_order_seq_cst) noexcept {
        this->rmw_prologue();
        T old = this->v;
        if (d) changed();
        this->v = old + d;
        return old;
    }
    T fetch_sub(std::ptrdiff_t d, std::memory_order = std::memory_order_seq_cst) noexcept {
        this->rmw_prologue();
        T old = this->v;
        if (d) changed();
        this->v = old - d;
        return old;
    }
    T operator++() noexcept { return fetch_add(1) + 1; }
    T operator++(int) noexcept { return fetch_add(1); }
    T operator--() noexcept { return fetch_sub(1) - 1; }
    T operator--(int) noexcept { return fetch_sub(1); }
    T operator+=(std::ptrdiff_t d) noexcept { return fetch_add(d) + d; }
    T operator-=(std::ptrdiff_t d) noexcept { return fetch_sub(d) - d; }
};

struct atomic_flag_t {
    bool v = false;
    atomic_flag_t() noexcept = default;
    constexpr atomic_flag_t(bool b) noexcept : v(b) {}
    atomic_flag_t(const atomic_flag_t&) = delete;
    atomic_flag_t& operator=(const atomic_flag_t&) = delete;
    bool test_and_set(std::memory_order = std::memory_order_seq_cst) noexcept {
        point(K_RMW, &v);
        if (__builtin_expect(g_tso_on, 0)) tso_drain_self();
        bool old = v;
        if (!old) changed();
        v = true;
        return old;
    }
    void clear(std::memory_order = std::memory_order_seq_cst) noexcept {
        point(K_STORE, &v);
        if (__builtin_expect(g_tso_on, 0)) tso_drain_self();
        if (v) changed();
        v = false;
    }
    bool test(std::memory_order = std::memory_order_seq_cst) const noexcept {
        point(K_LOAD, &v);
        return v;
    }
};

inline void atomic_thread_fence_shim(std::memory_order mo) noexcept {
    point(K_FENCE, nullptr);
    if (__builtin_expect(g_tso_on, 0) && mo == std::memory_order_seq_cst) tso_drain_self();
}

}  // namespace sim

namespace std {
template <class T> using sim_atomic = ::sim::atomic_t<T>;
using sim_atomic_flag = ::sim::atomic_flag_t;
inline void sim_atomic_thread_fence(std::memory_order mo) noexcept { ::sim::atomic_thread_fence_shim(mo); }
}  // namespace std
