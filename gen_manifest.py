#!/usr/bin/env python3
"""Regenerates MANIFEST.json from harness/checks_cfg.py (keeps the two in sync)."""
import json, os, subprocess, sys
ROOT = os.path.dirname(os.path.abspath(__file__))
sys.path.insert(0, os.path.join(ROOT, "harness"))
from checks_cfg import CHECKS, MANIFEST_TEXT, NOT_APPLICABLE

props = [json.loads(l)["id"] for l in open(os.path.join(ROOT, "properties.jsonl"))]
hooks = subprocess.run(["git", "-C", "/repo", "log", "--format=%H %s"], capture_output=True, text=True).stdout.splitlines()
hook_commits = [l.split()[0] for l in hooks if " verif hook:" in l]
checks = []
for pid in props:
    if pid not in CHECKS:
        continue
    c = CHECKS[pid]
    t = MANIFEST_TEXT[pid]
    checks.append({
        "property_id": pid,
        "quick_cmd": "./check %s --tier quick" % pid,
        "thorough_cmd": "./check %s --tier thorough" % pid,
        "evidence_file": "/verif/evidence/%s.json" % pid,
        "replay_cmd_template": "./check %s --replay {path}" % pid,
        "engine": "simtbb",
        "level_claimed": {"category": c.get("level", "exploration"), "text": t["level"], "design_ref": "DESIGN.md section 11 (%s)" % pid},
        "level_note": t["note"],
        "technique": t.get("technique", "deterministic simulation: seeded schedule + fault search over the real code, oracle on recorded history"),
    })
na = [{"property_id": p, "reason": NOT_APPLICABLE.get(p, "check not built yet in this session (planned in DESIGN.md section 11); no claim is made")} for p in props if p not in CHECKS]
m = {
    "version": 1,
    "setup_cmd": "make -f build.mk FLAVOUR=asan -j16 && make -f build.mk FLAVOUR=fast -j16",
    "hooks": {
        "guard": "ONETBB_VERIF_SIM",
        "enable": "make -f build.mk compiles /repo/src/tbb, /repo/src/tbbmalloc and the headers from the working tree with -DONETBB_VERIF_SIM=1 -DONETBB_VERIF_MIN_TASK_POOL=4 -DONETBB_VERIF_BACKREF_LEAF=8 -include sim/prelude.h",
        "baseline_off_cmd": "cmake -G Ninja -S /repo -B /repo/_build && cmake --build /repo/_build -j16 && ctest --test-dir /repo/_build -j8 --timeout 900",
        "source_commits": list(reversed(hook_commits)),
        "add_only": True,
    },
    "engines": [{"name": "simtbb", "path": "/verif/sim + /verif/harness", "serves_properties": [c["property_id"] for c in checks],
                 "kind_free_text": "deterministic simulation with fault injection: the real oneTBB sources run as cooperative fibers on one OS thread under a seeded scheduler (random walk / burst / PCT / stall / lost-wake-up hunter), simulated clock, futex, threads, TLS, mmap; x86-TSO store buffers on registered regions; fork-per-run from a pristine zygote with ASLR off; ddmin minimisation of program tape and schedule; replay files"}],
    "checks": checks,
    "not_applicable": na,
    "notes": "All checks share one binary per flavour (build/asan/simtbb, build/fast/simtbb) rebuilt from /repo's working tree by every command. VERIF_SEED selects the first seed of the stripe; VERIF_BUDGET_S overrides the search budget.",
}
json.dump(m, open(os.path.join(ROOT, "MANIFEST.json"), "w"), indent=1)
print("MANIFEST.json: %d checks, %d not_applicable" % (len(checks), len(na)))
